"""Orchestration helpers for /verif/bin/check: cargo, harness workers (with crash isolation),
TLC model runs and TLC trace validation, evidence and replay files.
All verdicts are TLC's; this file only moves data and relays what TLC printed."""
import json, os, re, shutil, subprocess, sys, time, glob, hashlib
from concurrent.futures import ThreadPoolExecutor

ROOT = "/verif"
SPEC = f"{ROOT}/spec"
HARNESS = f"{ROOT}/harness"
TLA_CP = f"{SPEC}/classes:/opt/veriftools/tla/tla2tools.jar:/opt/veriftools/tla/CommunityModules-deps.jar"
NCPU = os.cpu_count() or 8


class ToolError(Exception):
    pass


def log(*a):
    print(*a, file=sys.stderr, flush=True)


def sh(cmd, **kw):
    return subprocess.run(cmd, shell=isinstance(cmd, str), capture_output=True, text=True, **kw)


# ------------------------------------------------------------------------------------------
def build(profile="dev"):
    """(Re)build the harness against /repo's current working tree (path dependency)."""
    env = dict(os.environ, CARGO_NET_OFFLINE="true")
    cmd = ["cargo", "build", "--offline", "--quiet"]
    if profile == "release":
        cmd.append("--release")
    elif profile != "dev":
        cmd += ["--profile", profile]
    t0 = time.time()
    r = subprocess.run(cmd, cwd=HARNESS, env=env, capture_output=True, text=True)
    if r.returncode != 0:
        errs = [l for l in r.stderr.splitlines() if l.startswith("error")]
        raise ToolError("cargo build failed (%s): %s\n%s" % (profile, errs[:3], r.stderr[-1500:]))
    d = {"dev": "debug", "release": "release"}.get(profile, profile)
    log(f"[build] {profile} {time.time()-t0:.1f}s")
    return f"{HARNESS}/target/{d}/asever"


def javac_override():
    for name in ("AseFloat", "AseZlib"):
        cls = f"{SPEC}/classes/{name}.class"
        src = f"{SPEC}/{name}.java"
        if not os.path.exists(cls) or os.path.getmtime(cls) < os.path.getmtime(src):
            os.makedirs(f"{SPEC}/classes", exist_ok=True)
            r = sh(["javac", "-cp", "/opt/veriftools/tla/tla2tools.jar", "-d", f"{SPEC}/classes", src])
            if r.returncode != 0:
                raise ToolError("javac failed: " + r.stderr)


# ------------------------------------------------------------------------------------------
class Work:
    def __init__(self, pid, tier):
        self.dir = f"{ROOT}/work/{pid}-{tier}-{os.getpid()}"
        shutil.rmtree(self.dir, ignore_errors=True)
        os.makedirs(self.dir)

    def path(self, name):
        return os.path.join(self.dir, name)

    def cleanup(self):
        shutil.rmtree(self.dir, ignore_errors=True)


RE_GROUP = re.compile(r'"group":"([^"]*)"')


def split_lines(path, n, outprefix):
    """Split an NDJSON file into n shards; lines that carry the same "group" stay together and in order
    (a base case and its encoding variants), other lines are dealt round-robin. Returns non-empty shard paths."""
    outs = [open(f"{outprefix}.{i}", "w") for i in range(n)]
    cnt = 0
    groups = {}
    with open(path) as f:
        for i, line in enumerate(f):
            if not line.strip():
                continue
            m = RE_GROUP.search(line[-300:]) or RE_GROUP.search(line[:300])
            if m:
                k = groups.setdefault(m.group(1), len(groups) % n)
            else:
                k = i % n
            outs[k].write(line)
            cnt += 1
    for o in outs:
        o.close()
    paths = [f"{outprefix}.{i}" for i in range(n) if os.path.getsize(f"{outprefix}.{i}") > 0]
    return paths, cnt


def count_lines(path):
    with open(path) as f:
        return sum(1 for l in f if l.strip())


# ------------------------------------------------------------------------------------------
def classify_crash(rc, stderr):
    s = stderr[-2000:]
    if "has overflowed its stack" in s:
        return "stack_overflow"
    if "memory allocation of" in s:
        return "abort"
    if rc is None:
        return "hang"
    return "abort" if rc in (-6, 134) else "killed"


def run_worker_shard(binpath, shard, out, extra_env=None, per_case_timeout=300):
    """Run `asever worker` over a shard. A crash (abort, stack overflow, OOM kill, hang) of the
    library under test becomes an `end` event for the case that was running, and the shard resumes."""
    skip = 0
    crashes = []
    total = count_lines(shard)
    env = dict(os.environ)
    if extra_env:
        env.update(extra_env)
    open(out, "w").close()
    while skip < total:
        part = out + ".part"
        p = subprocess.Popen([binpath, "worker", "--in", shard, "--out", part, "--skip", str(skip)],
                             stderr=subprocess.PIPE, env=env, text=True)
        rc = None
        last_size, last_change = -1, time.time()
        while True:
            try:
                p.wait(timeout=2)
                rc = p.returncode
                break
            except subprocess.TimeoutExpired:
                sz = os.path.getsize(part) if os.path.exists(part) else 0
                if sz != last_size:
                    last_size, last_change = sz, time.time()
                elif time.time() - last_change > per_case_timeout:
                    p.kill()
                    p.wait()
                    rc = None
                    break
        stderr = p.stderr.read() if p.stderr else ""
        # copy complete cases, find the one in flight
        done, inflight = 0, None
        with open(part) as f, open(out, "a") as o:
            buf = []
            for line in f:
                if not line.endswith("\n"):
                    break
                m = RE_EV.match(line)
                if m and m.group(1) == "begin":
                    buf = [line]
                    inflight = json.loads(line)
                elif m and m.group(1) == "done":
                    buf.append(line)
                    o.writelines(buf)
                    buf = []
                    done += 1
                    inflight = None
                else:
                    buf.append(line)
            if inflight is not None:
                kind = classify_crash(rc, stderr)
                cid = inflight["case"]
                o.write(json.dumps(inflight) + "\n")
                m = re.findall(r"ASEVER-REFUSED (\d+)", stderr)
                refused = (int(m[-1]) + 1023) // 1024 if m else 0
                fr = re.findall(r"\d+: <?(asefile::[A-Za-z0-9_:<>]+)", stderr)
                site = fr[0] if fr else ""
                what = "allocation refused/failed" if (m or "memory allocation of" in stderr) else ("stack overflow" if kind == "stack_overflow" else kind)
                short = f"{what} @ {site}"
                o.write(json.dumps({"ev": "end", "case": cid, "result": kind, "msg": short, "len": inflight.get("len", 0),
                                    "peak_kib": refused, "maxreq_kib": refused, "refused_kib": refused, "hook_chunks": 0}) + "\n")
                o.write(json.dumps({"ev": "done", "case": cid}) + "\n")
                crashes.append((cid, kind, stderr[-300:].strip()))
        os.remove(part)
        if rc == 0:
            break
        if inflight is None and rc != 0:
            raise ToolError(f"harness worker failed outside a case rc={rc}: {stderr[-500:]}")
        skip += done + 1
    return crashes


def run_workers(binpath, cases, outprefix, shards=8, extra_env=None, per_case_timeout=300):
    paths, n = split_lines(cases, shards, outprefix + ".in")
    outs = [p.replace(".in.", ".ev.") for p in paths]
    crashes = []
    with ThreadPoolExecutor(max_workers=len(paths) or 1) as ex:
        for c in ex.map(lambda a: run_worker_shard(binpath, a[0], a[1], extra_env, per_case_timeout), zip(paths, outs)):
            crashes += c
    return outs, n, crashes


# ------------------------------------------------------------------------------------------
RE_EV = re.compile(r'^\{"case":.{0,600}?"ev":"(begin|done)"')
RE_STATES = re.compile(r"(\d+) states generated, (\d+) distinct states found")


def collect_prints(text, tag):
    """Collect TLC PrintT values that start with <<"tag" (possibly pretty-printed over several lines)."""
    out = []
    lines = text.splitlines()
    i = 0
    starts = ('<<"%s"' % tag, '<< "%s"' % tag)
    while i < len(lines):
        if lines[i].startswith(starts):
            buf = lines[i]
            while buf.count("<<") > buf.count(">>") and i + 1 < len(lines):
                i += 1
                buf += " " + lines[i].strip()
            buf = re.sub(r"<<\s+", "<<", buf)
            buf = re.sub(r"\s+>>", ">>", buf)
            buf = re.sub(r"\s+", " ", buf)
            out.append(buf)
        i += 1
    return out


def run_tlc(spec, cfg, workers=1, env=None, xmx="3g", timeout=3600, metadir=None, extra=None, outfile=None, simulate=None):
    javac_override()
    e = dict(os.environ)
    e["JAVA_TOOL_OPTIONS"] = "-Xss1g"
    if env:
        e.update(env)
    md = metadir or f"{ROOT}/work/tlc-{os.getpid()}-{time.time_ns()}"
    cmd = ["timeout", str(timeout), "java", "-XX:+UseParallelGC", f"-Xmx{xmx}", "-cp", TLA_CP, "tlc2.TLC",
           "-workers", str(workers), "-metadir", md, "-cleanup", "-noGenerateSpecTE", "-config", cfg]
    if simulate:
        cmd += ["-simulate", simulate]
    if extra:
        cmd += extra
    cmd.append(spec)
    t0 = time.time()
    if outfile:
        with open(outfile, "w") as f:
            r = subprocess.run(cmd, cwd=SPEC, env=e, stdout=f, stderr=subprocess.STDOUT, text=True)
        text = None
    else:
        r = subprocess.run(cmd, cwd=SPEC, env=e, capture_output=True, text=True)
        text = r.stdout + r.stderr
    shutil.rmtree(md, ignore_errors=True)
    return r.returncode, text, time.time() - t0


def tlc_summary(text):
    m = None
    for m in RE_STATES.finditer(text):
        pass
    gen, dist = (int(m.group(1)), int(m.group(2))) if m else (0, 0)
    return gen, dist


def validate_traces(spec, traces, xmx="3g", jvms=12, timeout=3600, env=None):
    """Run one TLC per trace file (workers=1, linear search). Returns dict with rejects etc."""
    res = {"generated": 0, "distinct": 0, "rejects": [], "outcomes": [0, 0, 0, 0], "errors": [], "wall": 0.0, "events": 0}
    t0 = time.time()

    def one(tr):
        ev = dict(env or {})
        ev["TRACE"] = tr
        rc, text, wall = run_tlc(f"{spec}.tla", f"{spec}.cfg", workers=1, env=ev, xmx=xmx, timeout=timeout)
        return tr, rc, text

    with ThreadPoolExecutor(max_workers=jvms) as ex:
        for tr, rc, text in ex.map(one, traces):
            g, d = tlc_summary(text)
            res["generated"] += g
            res["distinct"] += d
            rej = collect_prints(text, "REJECT")
            res["rejects"] += rej
            for o in collect_prints(text, "OUTCOMES"):
                nums = [int(x) for x in re.findall(r"-?\d+", o)]
                for i in range(min(4, len(nums))):
                    res["outcomes"][i] += nums[i]
            stuck = collect_prints(text, "TRACE-STUCK at event")
            accepted = ("Model checking completed. No error has been found." in text)
            if stuck:
                res["errors"].append(f"{tr}: {stuck[0][:300]}")
            elif not accepted and not rej:
                # TLC evaluation error, timeout, ...: tool trouble unless it carries rejects
                tail = "\n".join([l for l in text.splitlines() if l.startswith("Error") or "rror:" in l][:6]) or text[-800:]
                res["errors"].append(f"{tr}: rc={rc} {tail}")
    res["wall"] = time.time() - t0
    return res


def reject_case_id(rej):
    m = re.match(r'<<"REJECT", <<"([^"]*)"', rej)
    return m.group(1) if m else "?"


def find_case(cases_path, cid):
    with open(cases_path) as f:
        for line in f:
            if cid in line:
                try:
                    c = json.loads(line)
                except Exception:
                    continue
                if c.get("id") == cid:
                    return c
    return None


# ------------------------------------------------------------------------------------------
def unescape_tla_string(s):
    # TLC prints strings with \" and \\ escapes
    return s.replace('\\"', '"').replace("\\\\", "\\")


def extract_json_prints(path_or_text, tag, is_path=True):
    """Yield JSON documents printed by TLC as <<"tag", "<escaped json>">> (one per line)."""
    pat = '<<"%s", "' % tag
    f = open(path_or_text) if is_path else path_or_text.splitlines()
    for line in f:
        if line.startswith(pat):
            line = line.rstrip("\n")
            body = line[len(pat):]
            end = body.rfind('">>')
            if end < 0:
                continue
            yield unescape_tla_string(body[:end])
    if is_path:
        f.close()


# ------------------------------------------------------------------------------------------
def load_known():
    """known_findings.txt: 'known: property=<id> signature=<sig> <what>' lines are suppressed (KNOWN-FINDING),
    'fixed: ...' lines are documentation only."""
    path = f"{ROOT}/known_findings.txt"
    out = []
    if os.path.exists(path):
        for l in open(path):
            l = l.strip()
            m = re.match(r"known: property=(\S+) signature=(\S+) (.*)", l)
            if m:
                out.append({"status": "known", "property": m.group(1), "signature": m.group(2), "what": m.group(3)})
    return out


class Report:
    """Collects stage statistics and violations for one check run, writes evidence, prints verdict lines."""

    def __init__(self, pid, tier, seed, level):
        self.pid, self.tier, self.seed, self.level = pid, tier, seed, level
        self.t0 = time.time()
        self.cov = {"states": 0, "transitions": 0, "traces_validated_against_impl": 0, "evaluations": 0,
                    "distinct_nontrivial": 0, "samples": [], "stages": [], "exhaustive": False}
        self.assumptions = []
        self.violations = []   # (signature, text, replay_path)
        self.known_hits = []
        self.errors = []
        self.known = [k for k in load_known() if k.get("status") == "known" and k.get("property") == pid]
        os.makedirs(f"{ROOT}/replays/{pid}", exist_ok=True)

    def stage(self, name, **kw):
        self.cov["stages"].append(dict(name=name, **kw))

    def add_model(self, generated, distinct):
        self.cov["transitions"] += generated
        self.cov["states"] += distinct

    def sample(self, s):
        if len(self.cov["samples"]) < 6:
            self.cov["samples"].append(s)

    def error(self, msg):
        self.errors.append(msg)

    def violation(self, signature, text, replay_doc):
        for k in self.known:
            if k.get("signature") and k["signature"] == signature:
                if signature not in [h[0] for h in self.known_hits]:
                    self.known_hits.append((signature, k.get("what", text)))
                return
        self.nviol = getattr(self, "nviol", 0) + 1
        for v in self.violations:
            if v[0] == signature:
                v[3][0] += 1
                return
        if len(self.violations) >= 60:
            return
        h = hashlib.sha1((signature + text).encode()).hexdigest()[:10]
        path = f"{ROOT}/replays/{self.pid}/{h}.json"
        with open(path, "w") as f:
            json.dump(replay_doc, f)
        self.violations.append((signature, text, path, [1]))

    def finish(self, rule, trusted=None, exhaustive=False, explanation=None, write_evidence=True):
        wall = time.time() - self.t0
        cov = self.cov
        cov["rule"] = rule
        cov["exhaustive"] = exhaustive
        if explanation:
            cov["explanation"] = explanation
        if trusted:
            cov["trusted_base"] = trusted
        if not cov["samples"]:
            cov["samples"] = ["(no sample recorded)"]
        ev = {"property_id": self.pid, "tier": self.tier, "seed": self.seed, "level": self.level, "coverage": cov,
              "assumptions": self.assumptions, "wall_s": round(wall, 2), "violations": getattr(self, "nviol", 0)}
        if write_evidence:
            os.makedirs(f"{ROOT}/evidence", exist_ok=True)
            with open(f"{ROOT}/evidence/{self.pid}.json", "w") as f:
                json.dump(ev, f, indent=1)
        for sig, what in self.known_hits:
            print(f"KNOWN-FINDING: property={self.pid} {sig} {what}")
        if self.errors:
            for e in self.errors[:10]:
                print(f"ERROR property={self.pid} {e[:1500]}")
            if not self.violations:
                return 2
        if self.violations:
            for sig, text, path, cnt in self.violations:
                print(f"VIOLATION property={self.pid} replay={path}")
                print(f"  [{cnt[0]} cases] {sig} :: {text[:500]}")
            return 1
        print(f"OK property={self.pid} tier={self.tier} states={cov['states']} transitions={cov['transitions']} "
              f"impl_cases={cov['traces_validated_against_impl']} wall={wall:.1f}s")
        return 0
