"""Per-property checks. Each function fills a Report; verdicts come from TLC output only."""
import json, os, re, subprocess, time
from vlib import *
from vlib import RE_GROUP
from concurrent.futures import ThreadPoolExecutor

TRUSTED = ["TLC 1.8 (tla2tools.jar) and CommunityModules", "harness encoder/observer in /verif/harness (mechanical, no expected values)",
           "rustc/cargo, flate2 (zlib streams)"]


def sig_of_reject(rej):
    """Stable signature of a TLC REJECT line: verdict kind + failing fields / result class (no ids, no numbers)."""
    m = re.match(r'<<"REJECT", <<"[^"]*", "([a-z_]+)"(.*)', rej, re.S)
    if not m:
        return "reject"
    kind, rest = m.group(1), m.group(2)
    if kind in ("observation", "usable"):
        s = re.search(r"\{([^}]*)\}", rest)
        fields = s.group(1).replace('"', "").replace(" ", "") if s else ""
        pm = re.findall(r'msg \|-> "([^"]*)"', rest)
        ats = sorted(set(re.findall(r'at \|-> "([^"]*)"', rest)))
        extra = ""
        if ats:
            extra += ":at=" + ",".join(ats)
        if pm:
            sites = sorted({re.sub(r":\d+$", "", m.split(" @ ")[-1]) + ":" + re.sub(r"\d+", "N", m.split(" @ ")[0])[:40] for m in pm})
            extra += ":" + "|".join(sites)
        return f"{kind}:{fields}{extra}"
    if kind == "load_result":
        r = re.findall(r'"([^"]*)"', rest)
        res = r[0] if r else "?"
        msg = r[1] if len(r) > 1 else ""
        site = msg.split(" @ ")[-1] if " @ " in msg else ""
        site = re.sub(r":\d+$", "", site)
        what = re.sub(r"\d+", "N", msg.split(" @ ")[0])[:60]
        sets = re.findall(r"\{([^}]*)\}", rest)
        must = sets[0].replace('"', "").replace(" ", "") if sets else ""
        return f"load_result:{res}:{site}:{what}" + (f":must={must}" if must else "")
    return kind


STRUCT_FIELDS = {"width", "height", "size", "num_frames", "num_layers", "pixel_format", "transparent_index", "is_indexed", "durations",
                 "frame_ids", "layers", "layers_iter", "layer_by_name", "num_tags", "tags", "get_tag_out_of_range", "tag_by_name", "slices",
                 "palette", "external_files", "tilesets", "debug"}
TILE_FIELDS = {"tilemap.size", "tilemap.tile_size", "tilemap.tile_offsets", "tilemap.pixel_offsets", "tilemap.tileset", "tilemap.lookup",
               "tilemap.lookup_far", "tilemap.unexpected", "tilemap.image", "tileset_images", "cel.tilemap_some", "tilemaps_complete", "tilemap_out_of_range"}
UD_FIELDS = {"user_data.layer", "user_data.cel", "user_data.tag", "user_data.slice", "user_data.sprite"}
# which observation fields (names printed by TLC) concern which property; None = every field
FIELDS = {
    "C01": STRUCT_FIELDS | {"load_result_err"},
    "C02": {"frame.image", "frames_complete", "frame.uncovered_pixels_transparent"},
    "C06": {"cel.image", "cel.facts", "cels_complete", "cel.outside_rect_transparent"},
    "C07": {"variant_result_differs", "variant_observation_differs"},
    "C08": TILE_FIELDS | {"tilemap.image_is_cel_image"},
    "C09": {"parents", "visible", "frame.uncovered_pixels_transparent", "forest_sample", "forest_layers"},
    "C10": UD_FIELDS | {"parser_state_after_chunk"},
    "C11": {"palette", "load_result_ok", "load_result_err"},
    "C16": {"second_load_differs", "profile_pair_differs"},
    "C19": {"cel.routes_agree", "frame.single_layer_equals_cel", "tilemap.image_is_cel_image"},
    "C04": {"crash"},
    "C05": {"panics", "usable", "forest_layers"},
    "C12": {"memory_bound"},
    "C15": {"load_result_ok"},
}


C15_REASONS = {"depth", "pixel_ratio", "layer_type", "blend_mode", "cel_type", "anim_direction", "bits_per_tile", "fixed_gamma", "icc_profile",
               "tileset_not_embedded"}


def relevant_sig(pid, sig, fields=None):
    """Route a TLC verdict to the property it concerns. Returns the (filtered) signature or None."""
    allowed = fields if fields is not None else FIELDS.get(pid)
    if allowed is None:
        return sig
    kind = sig.split(":")[0]
    if kind == "observation":
        parts = sig.split(":")
        fs = [f for f in parts[1].split(",") if f]
        if fs == ["panics"]:
            # an accessor that panics instead of returning its value also concerns the property that says what the value is
            m = re.search(r":at=([^:]*)", sig)
            ats = set(m.group(1).split(",")) if m else set()
            owners = {"C19": {"frame().layer()", "layer().frame()", "cel()"}, "C02": {"frame.image"}, "C06": {"cel.image"},
                      "C08": {"tilemap()", "tilemap.dims", "tilemap.tile", "tilemap.image", "tileset.image", "tileset.tile_image"},
                      "C09": {"layer.is_visible"}, "C01": {"layers", "tags", "slices", "palette", "external_files", "tilesets", "layers.iter",
                                                         "layer_by_name", "tag_by_name", "frame.duration", "frame.id", "Debug"}}
            if pid in owners and ats & owners[pid]:
                return sig
            return sig if "panics" in allowed else None
        keep = [f for f in fs if f in allowed]
        return ("observation:" + ",".join(keep)) if keep else None
    if kind == "usable":
        if "usable" in allowed:
            return sig
        fs = [f for f in sig.split(":")[1].split(",") if f]
        keep = [f for f in fs if f in allowed]
        return ("usable:" + ",".join(keep)) if keep else None
    if kind == "load_result":
        # panics/aborts at load time concern C04 (aborts also C12); a refusal of a well-formed file or an
        # accepted must-fail file concerns the properties that list load_result
        res = sig.split(":")[1]
        if res in ("panic", "abort", "hang", "stack_overflow", "killed"):
            return sig if "crash" in allowed or (res in ("abort", "killed") and "memory_bound" in allowed) else None
        # "ok": a file the specification says must fail was accepted; "err:*": a well-formed file was refused
        tag = "load_result_ok" if res == "ok" else "load_result_err"
        if tag not in allowed:
            return None
        if tag == "load_result_ok":
            # an accepted must-fail file: C15 owns the unsupported-feature reasons, C11 the palette reason
            m = re.search(r":must=([^:]*)", sig)
            reasons = set(m.group(1).split(",")) if m else set()
            if pid == "C15" and reasons and not (reasons & C15_REASONS):
                return None
            if pid == "C11" and reasons and "palette_incomplete" not in reasons:
                return None
        return sig
    return sig if kind in allowed else None


def stage_cases(rep, work, binpath, cases, name, spec="Trace_Load", shards=8, jvms=12, env=None, xmx="3g", per_case_timeout=300, fields=None):
    """cases.ndjson -> harness workers -> NDJSON traces -> TLC trace validation."""
    t0 = time.time()
    outs, n, crashes = run_workers(binpath, cases, work.path(name), shards=shards, extra_env=env, per_case_timeout=per_case_timeout)
    t1 = time.time()
    res = validate_traces(spec, outs, jvms=jvms, xmx=xmx)
    rep.add_model(res["generated"], res["distinct"])
    rep.cov["traces_validated_against_impl"] += n
    rep.cov["evaluations"] += n
    for e in res["errors"]:
        rep.error(f"stage {name}: {e}")
    other = 0
    for rej in res["rejects"]:
        sig = relevant_sig(rep.pid, sig_of_reject(rej), fields)
        if sig is None:
            other += 1
            continue
        cid = reject_case_id(rej)
        c = find_case(cases, cid) or {"id": cid}
        doc = {"property": rep.pid, "stage": name, "case": c, "tlc": rej, "spec": spec}
        if sig.startswith("second_load_differs"):
            # the case that was loaded in between (the worker names it)
            m = re.search(r'"second_load_differs", "([^"]+)"', rej)
            nxt = find_case(cases, m.group(1)) if m else None
            if nxt is not None:
                doc["then"] = nxt
        rep.violation(sig, re.sub(r"\s+", " ", rej)[:1200], doc)
    if other:
        rep.cov.setdefault("rejects_attributed_to_other_properties", 0)
        rep.cov["rejects_attributed_to_other_properties"] += other
        log(f"[{rep.pid}] stage {name}: {other} rejects concern fields of other properties (not reported here)")
    rep.stage(name, cases=n, harness_s=round(t1 - t0, 1), tlc_s=round(res["wall"], 1), tlc_states=res["distinct"],
              outcomes=dict(zip(["ok", "err", "either", "unstructured"], res["outcomes"])), rejects=len(res["rejects"]), crashes=len(crashes))
    log(f"[{rep.pid}] stage {name}: {n} cases, harness {t1-t0:.1f}s, tlc {res['wall']:.1f}s, outcomes {res['outcomes']}, rejects {len(res['rejects'])}")
    if not os.environ.get("VERIF_KEEP"):
        for o in outs:
            try:
                os.remove(o)
            except OSError:
                pass
    return res


def gen(binpath, out, profile, seed, n, variants=0, twice=False):
    cmd = [binpath, "gen", "--profile", profile, "--seed", str(seed), "--n", str(n), "--out", out]
    if variants:
        cmd += ["--variants", str(variants)]
    if twice:
        cmd.append("--twice")
    r = subprocess.run(cmd, capture_output=True, text=True)
    if r.returncode != 0:
        raise ToolError("gen failed: " + r.stderr[-500:])


def first_cases(path, k=2, maxlen=1500):
    out = []
    with open(path) as f:
        for line in f:
            if len(out) >= k:
                break
            out.append(json.loads(line) if len(line) < maxlen else {"id": json.loads(line).get("id"), "truncated": line[:maxlen]})
    return out


def need_ok(rep, res, name, frac=0.5):
    """Vacuity control: a stage that is supposed to exercise well-formed sprites must see them."""
    ok, err, either, un = res["outcomes"]
    tot = ok + err + either + un
    if tot and ok < frac * tot:
        rep.error(f"stage {name}: only {ok}/{tot} cases were well-formed by the specification (generator/spec drift)")


# ------------------------------------------------------------------------------------------
def c01(rep, work, tier, seed):
    b = build("dev")
    n = 400 if tier == "quick" else 6000
    cases = work.path("g3.ndjson")
    gen(b, cases, "struct", seed, n)
    res = stage_cases(rep, work, b, cases, "g3-struct")
    need_ok(rep, res, "g3-struct", 0.95)
    for c in first_cases(cases, 1, 4000):
        rep.sample(c)
    resc = corpus_stage(rep, work, b, tier)
    res["outcomes"][0] += resc["outcomes"][0]
    big = work.path("g3big.ndjson")
    gen(b, big, "long", seed, 2 if tier == "quick" else 12)
    wide = work.path("g3wide.ndjson")
    gen(b, wide, "wide", seed, 3 if tier == "quick" else 20)
    with open(big, "a") as f:
        f.write(open(wide).read())
    resb = stage_cases(rep, work, b, big, "g3-long-wide", shards=5, jvms=5)
    need_ok(rep, resb, "g3-long-wide", 0.99)
    res["outcomes"][0] += resb["outcomes"][0]
    tot = mc_load_stage(rep, work, b, tier)
    res["outcomes"][0] += tot[0]
    resp = predicted_faults_stage(rep, work, b, tier, seed)
    res["outcomes"][0] += resp["outcomes"][0]
    rep.final = dict(rule="single-field boundary-value faults whose program TLC decodes from the patched bytes (AseParse!Decode) and which are still "
                          "well-formed must load with exactly the decoded values; every chunk program up to length 3 (quick) / 4 (thorough) over MC_Load's alphabet enumerated by TLC and replayed; "
                          "random/boundary well-formed sprite programs (G3 'struct') and the repository's real Aseprite files (independent decoder -> program; "
                          "the library loads the original bytes); a case is non-trivial when the specification "
                          "classifies it well-formed (outcome ok) and its full observation is compared field by field by TLC",
                     trusted=TRUSTED)
    rep.cov["distinct_nontrivial"] = res["outcomes"][0]


CHECKS = {
    "C01": (c01, "model_checking"),
}


def replay(pid, path, work, rep):
    """Re-run the recorded case of a replay file through the same pipeline (harness + TLC trace spec)."""
    doc = json.load(open(path))
    stage = doc.get("stage", "")
    rep.final = dict(rule="replay of one recorded case", trusted=TRUSTED)
    rep.cov["distinct_nontrivial"] = 1
    if "driver" in doc and "case" in doc:
        # cuts / readers / util drivers
        b = build("dev")
        cases = work.path("replay.ndjson")
        with open(cases, "w") as f:
            f.write(json.dumps(doc["case"]) + "\n")
        driver_stage(rep, work, b, doc["driver"], cases, "replay", doc.get("args", []), spec=doc.get("spec", "Trace_Read"), shards=1)
    elif "blend" in doc:
        b = build("relchk")
        blend_stage(rep, work, b, doc["blend"]["stratum"], doc.get("seed", 1), doc.get("n", 60000), BLEND_C03 | BLEND_C17, modes=doc["blend"].get("modes"))
    elif "case" in doc and ("prog" in doc["case"] or "hex" in doc["case"] or "file" in doc["case"]):
        b = build("relchk" if "relchk" in stage else "dev")
        cases = work.path("replay.ndjson")
        with open(cases, "w") as f:
            f.write(json.dumps(doc["case"]) + "\n")
            if "then" in doc:
                f.write(json.dumps(doc["then"]) + "\n")
        stage_cases(rep, work, b, cases, "replay", spec=doc.get("spec", "Trace_Load"), shards=1, jvms=1, env={"ASEVER_ALLOC_CAP": ALLOC_CAP})
    else:
        # no single recorded input (threads, profile pairs, compile probe): re-run the property's quick check
        fn, _ = CHECKS[pid]
        fn(rep, work, "quick", doc.get("seed", 1))
    return rep.finish(write_evidence=False, **rep.final)


# ------------------------------------------------------------------------------------------
# Direction A: TLC enumerates programs (MC_*.tla), the harness replays them, TLC validates.
def mc_run(rep, work, module, constants, invariants, workers=8, timeout=3000, name=None, coverage_invariants=None):
    """Model-check MC_<module> with the given constants; returns path of TLC's output (PROG/MENU prints).
    Vacuity control: TLC's -coverage action counts; every action of the model module must have been taken. TLC's coverage
    bookkeeping exhausts the heap on invariants that evaluate the byte-level encoder/decoder for every state, so for such
    models the counts come from a second run of the same model and constants with the cheap invariants only
    (`coverage_invariants`); the action counts do not depend on the invariants."""
    name = name or module
    def write_cfg(path, invs):
        with open(path, "w") as f:
            f.write("SPECIFICATION Spec\nCONSTANTS\n")
            for k, v in constants.items():
                f.write(f"  {k} = {v}\n")
            f.write("INVARIANTS " + " ".join(invs) + "\nCHECK_DEADLOCK FALSE\n")
    cfg = work.path(f"{name}.cfg")
    write_cfg(cfg, invariants)
    out = work.path(f"{name}.tlc.out")
    split = coverage_invariants is not None
    rc, _, wall = run_tlc(f"{module}.tla", cfg, workers=workers, timeout=timeout, outfile=out, extra=None if split else ["-coverage", "1"], xmx="10g")
    text_tail = subprocess.run(["grep", "-vE", '^<<"(PROG|MENU)"', out], capture_output=True, text=True).stdout
    gen_, dist = tlc_summary(text_tail)
    if "Model checking completed. No error has been found." not in text_tail:
        errs = [l for l in text_tail.splitlines() if "rror" in l or "violated" in l][:5]
        raise ToolError(f"model check of {module} did not complete cleanly (spec-level problem, not an implementation verdict): {errs} rc={rc}")
    cov_text = text_tail
    if split:
        cfg2 = work.path(f"{name}.cov.cfg")
        write_cfg(cfg2, coverage_invariants)
        rc2, cov_text, wall2 = run_tlc(f"{module}.tla", cfg2, workers=workers, timeout=timeout, extra=["-coverage", "1"], xmx="10g")
        wall += wall2
        g2, d2 = tlc_summary(cov_text)
        if "Model checking completed. No error has been found." not in cov_text or d2 != dist:
            raise ToolError(f"coverage run of {module} did not reproduce the model ({d2} vs {dist} states) rc={rc2}")
    # vacuity: every action of the model module must have been taken (TLC -coverage: <Action ...>: distinct:generated)
    actions = {}
    for m in re.finditer(r"^<(\w+) line \d+, col \d+ to line \d+, col \d+ of module (\w+)>: (\d+):(\d+)", cov_text, re.M):
        if m.group(2) == module:
            actions[m.group(1)] = max(actions.get(m.group(1), 0), int(m.group(4)))
    if not actions:
        raise ToolError(f"model {module}: no action coverage reported")
    never = sorted(a for a, n in actions.items() if n == 0)
    if never:
        rep.error(f"model {module}: action(s) never taken within the bounds (vacuous run): {never}")
    rep.add_model(gen_, dist)
    rep.stage(f"model:{name}", states=dist, transitions=gen_, constants=constants, invariants=invariants, wall_s=round(wall, 1), actions_taken=actions)
    log(f"[{rep.pid}] model {name}: {dist} states, {wall:.1f}s")
    return out, dist


def write_cases(path, it):
    n = 0
    with open(path, "w") as f:
        for c in it:
            f.write(json.dumps(c) + "\n")
            n += 1
    return n


def batched_stage(rep, work, binpath, cases, name, batch=30000, **kw):
    """stage_cases in batches so that traces on disk stay small (a batch never splits a "group")."""
    total = {"outcomes": [0, 0, 0, 0], "rejects": [], "errors": [], "generated": 0, "distinct": 0}
    def group_of(line):
        m = RE_GROUP.search(line[:300])
        return m.group(1) if m else None
    with open(cases) as f:
        k = 0
        pending = None
        while True:
            part = work.path(f"{name}.b{k}.ndjson")
            n = 0
            cur = None
            with open(part, "w") as o:
                while True:
                    line = pending if pending is not None else f.readline()
                    pending = None
                    if not line:
                        break
                    g = group_of(line)
                    if n >= batch and (g is None or g != cur):
                        pending = line
                        break
                    o.write(line)
                    cur = g
                    n += 1
            if n == 0:
                os.remove(part)
                break
            res = stage_cases(rep, work, binpath, part, f"{name}.b{k}", **kw)
            for i in range(4):
                total["outcomes"][i] += res["outcomes"][i]
            total["rejects"] += res["rejects"]
            os.remove(part)
            k += 1
            if getattr(rep, 'nviol', 0) >= 5000:
                break
    return total


HDR1 = {"w": 1, "h": 1, "depth": 32}


def cel1(layer, x=0, color=(1, 1, 1, 255)):
    return {"k": "cel", "layer": layer, "x": x, "y": 0, "opacity": 255, "ctype": 0, "w": 1, "h": 1, "px": [list(color)]}


def expand_forest(d, maxn):
    lv, vis = d["levels"], d["vis"]
    n = len(lv)
    chunks, cels = [], []
    for i in range(n):
        group = i + 1 < n and lv[i + 1] > lv[i]
        chunks.append({"k": "layer", "flags": 1 if vis[i] else 0, "ltype": 1 if group else 0, "level": lv[i], "name": [65 + (i + 1) % 26]})
        if not group:
            j = i + 1
            cels.append(cel1(i, x=i, color=((10 * j) % 256, (20 * j) % 256, (30 * j) % 256, 255)))
    return {"hdr": {"w": maxn, "h": 1, "depth": 32, "speed": 100}, "frames": [{"dur": 100, "chunks": chunks + cels}]}


IGN_CYCLE = [{"k": "celextra", "body": [0] * 20}, {"k": "mask", "body": [1, 2, 3]}, {"k": "path", "body": []},
             {"k": "profile", "ptype": 1, "flags": 0}, {"k": "profile", "ptype": 0, "flags": 0}]


def ud_chunk(pos):
    m = pos % 4
    if m == 0:
        return {"k": "ud", "text": [[85, 48 + pos]], "color": []}
    if m == 1:
        return {"k": "ud", "text": [], "color": [[pos, 2, 3, 255]]}
    if m == 2:
        return {"k": "ud", "text": [[85, 48 + pos]], "color": [[pos, 5, 6, 7]]}
    return {"k": "ud", "text": [], "color": []}


def expand_ud(syms, idx=0):
    chunks = []
    frames = [chunks]
    for pos, s in enumerate(syms, start=1):
        k = s[0]
        if k == "frame":
            chunks = []
            frames.append(chunks)
        elif k == "layer":
            chunks.append({"k": "layer", "flags": 1, "name": [76]})
        elif k == "cel":
            chunks.append(cel1(s[1], color=(pos, pos, pos, 255)))
        elif k == "slice":
            chunks.append({"k": "slice", "name": [83], "flags": 0, "keys": []})
        elif k == "tags":
            chunks.append({"k": "tags", "tags": [{"from": 0, "to": 0, "dir": 0, "repeat": 0, "name": [84, 48 + i]} for i in range(1, s[1] + 1)]})
        elif k == "oldpal":
            # the two legacy kinds are collapsed in the model and cycled here
            kind = "oldpal04" if (idx + pos) % 2 == 0 else "oldpal11"
            chunks.append({"k": kind, "packets": [{"skip": 0, "count": 1, "rgb": [[1, 2, 3]]}]})
        elif k == "newpal":
            chunks.append({"k": "pal", "first": 0, "last": 0, "total": "1", "entries": [{"flags": 0, "rgba": [9, 9, 9, 255], "name": []}]})
        elif k == "ign":
            chunks.append(IGN_CYCLE[(idx + pos) % len(IGN_CYCLE)])
        elif k == "ud":
            chunks.append(ud_chunk(pos))
    while len(frames) < 2:
        frames.append([])          # MC_UD's header declares two frames; a program that stops in frame 0 ends with an empty frame
    return {"hdr": dict(HDR1, speed=100), "frames": [{"dur": 100 + f, "chunks": ch} for f, ch in enumerate(frames)]}


def c09(rep, work, tier, seed):
    b = build("dev")
    maxn = 6 if tier == "quick" else 8
    out, states = mc_run(rep, work, "MC_Forest", {"MaxLayers": maxn, "ImageLayers": 6}, ["ForestInv", "Export"], workers=10)
    cases = work.path("forest.ndjson")
    n = write_cases(cases, ({"id": f"forest-{i}", "mode": "full", "meta": {"gen": "g1", "desc": d}, "prog": expand_forest(d, maxn)}
                            for i, d in enumerate(map(json.loads, extract_json_prints(out, "PROG")))))
    if n != states:
        rep.error(f"exported {n} programs for {states} model states")
    rep.sample(first_cases(cases, 300)[-1])
    res = batched_stage(rep, work, b, cases, "forest", batch=40000)
    os.remove(out)
    if tier != "quick":
        # one more layer on the model alone (no replay): 2.8 M forests x flag vectors
        mc_run(rep, work, "MC_Forest", {"MaxLayers": 9, "ImageLayers": 6}, ["ForestInv"], workers=12, name="MC_Forest9", timeout=3000)
    # deep forests beyond the exhaustive bound (G3-style, depth up to 200)
    deep = work.path("deep.ndjson")
    import random
    rnd = random.Random(seed)
    def deep_cases():
        for i in range(12 if tier == "quick" else 150):
            depth = rnd.choice([9, 17, 40, 90] if tier == "quick" else [9, 17, 40, 120, 200])
            lv, vis = [], []
            for j in range(depth):
                lv.append(0 if j == 0 else rnd.randint(max(0, lv[-1] - 2), lv[-1] + 1))
                vis.append(rnd.random() < 0.85)
            yield {"id": f"deepforest-{seed}-{i}", "mode": "full", "meta": {"gen": "g3-forest"}, "prog": expand_forest({"levels": lv, "vis": vis}, min(depth, 64))}
    def chain_cases():
        # nesting deeper than 255 levels (one chain, and a chain with siblings returning to shallower levels)
        for name, lv in (("chain300", list(range(300))), ("zigzag", [min(j, 290) if j % 7 else max(0, min(j, 290) - 3) for j in range(320)])):
            lv2 = [lv[0]]
            for j in range(1, len(lv)):
                lv2.append(min(lv[j], lv2[-1] + 1))
            vis = [not (j in (0, 128, 256, 257)) for j in range(len(lv2))] if name == "chain300" else [rnd.random() < 0.97 for _ in lv2]
            yield {"id": f"deepforest-{name}", "mode": "full", "meta": {"gen": "g3-forest"}, "prog": expand_forest({"levels": lv2, "vis": vis}, 64)}
            yield {"id": f"deepforest-{name}-allvisible", "mode": "full", "meta": {"gen": "g3-forest"},
                   "prog": expand_forest({"levels": lv2, "vis": [j != 0 for j in range(len(lv2))]}, 64)}
    with open(deep, "w") as f:
        for c in list(deep_cases()) + list(chain_cases()):
            f.write(json.dumps(c) + "\n")
    res2 = stage_cases(rep, work, b, deep, "deep-forests")
    # more layers than 16 bits can count (layer ids are u32 in the API): the levels travel as one event, parents and
    # visibility of a sample of layers (both ends, around every power-of-two boundary) are decided by ParentL / VisibleL
    big = work.path("bigforest.ndjson")
    def big_forest(n, pattern):
        lv = [pattern[i % len(pattern)] for i in range(n)]
        chunks = [{"k": "layer", "flags": (0 if (i % 97 == 5 or i in (65536, 65544)) else 1) | 2, "ltype": 1 if (i + 1 < n and lv[i + 1] > lv[i]) else 0, "level": lv[i], "name": []} for i in range(n)]
        chunks.append({"k": "cel", "layer": 2, "ctype": 0, "w": 1, "h": 1, "px": [[1, 2, 3, 255]]})
        return {"hdr": {"w": 1, "h": 1, "depth": 32}, "frames": [{"dur": 1, "chunks": chunks}]}
    shapes = [(65600, (0, 1, 2, 1, 2, 3, 0, 1))] if tier == "quick" else [(65600, (0, 1, 2, 1, 2, 3, 0, 1)), (70010, (0, 1, 1, 1, 2)), (131100, (0, 1, 2, 3, 4, 0, 1, 1))]
    write_cases(big, ({"id": f"bigforest-{n}-{len(p)}", "mode": "forest", "meta": {"gen": "g5c", "shape": "more than 2^16 layers"}, "prog": big_forest(n, p)} for n, p in shapes))
    res3 = stage_cases(rep, work, b, big, "forests-beyond-16-bits", shards=len(shapes), per_case_timeout=900)
    rep.cov["layers_in_largest_forest"] = shapes[-1][0]
    need_ok(rep, res, "forest", 0.99)
    rep.cov["distinct_nontrivial"] = res["outcomes"][0] + res2["outcomes"][0]
    rep.final = dict(rule=f"every layer level sequence of <= {maxn} layers forming a forest x every visible-flag vector (TLC BFS, exhaustive), "
                          "each replayed in the implementation and validated by TLC (parents, is_visible, frame image); plus random deep forests",
                     trusted=TRUSTED, exhaustive=True)


def c10(rep, work, tier, seed):
    b = build("dev")
    maxlen = 5 if tier == "quick" else 6
    out, states = mc_run(rep, work, "MC_UD", {"MaxLen": maxlen}, ["UDOwnerInv", "NoStrayInv", "AcceptedInv", "IgnoredStutterInv", "Export"], workers=10)
    cases = work.path("ud.ndjson")
    n = write_cases(cases, ({"id": f"ud-{i}", "mode": "full", "meta": {"gen": "g1", "syms": s}, "prog": expand_ud(s, i)}
                            for i, s in enumerate(map(json.loads, extract_json_prints(out, "PROG")))))
    if n != states:
        rep.error(f"exported {n} programs for {states} model states")
    rep.sample(first_cases(cases, 2000)[-1])
    res = batched_stage(rep, work, b, cases, "ud", batch=60000)
    need_ok(rep, res, "ud", 0.99)
    os.remove(out)
    # one symbol more on the model alone (no replay)
    mc_run(rep, work, "MC_UD", {"MaxLen": maxlen + 1}, ["UDOwnerInv", "NoStrayInv", "AcceptedInv", "IgnoredStutterInv"], workers=12, name="MC_UD_deeper", timeout=3000)
    # random sprites with user data on layers, cels in all frames, slices, tags and the sprite (incl. empty records)
    g3 = work.path("g3.ndjson")
    gen(b, g3, "struct", seed + 21, 300 if tier == "quick" else 6000)
    resg = stage_cases(rep, work, b, g3, "g3-struct")
    need_ok(rep, resg, "g3-struct", 0.95)
    rep.cov["distinct_nontrivial"] = res["outcomes"][0]
    rep.final = dict(rule=f"every sequence of length <= {maxlen} over layer/cel/slice/tags(1,2)/legacy palette/new palette/ignorable/user data/frame boundary "
                          "satisfying C10's side conditions (TLC BFS, exhaustive; invariants UDOwnerInv, NoStrayInv, IgnoredStutterInv), each replayed "
                          "and validated by TLC incl. the parser's context after every chunk (hook)",
                     trusted=TRUSTED, exhaustive=True)


def palette_programs_stage(rep, work, b, tier):
    """MC_Palette's programs (palette chunk sequences x indexed pixel vectors, incl. pixels in palette holes) replayed and validated."""
    k = 2 if tier == "quick" else 3
    out, states = mc_run(rep, work, "MC_Palette", {"MaxChunks": k, "MaxPixels": 2}, ["PaletteInv", "Export"], workers=8)
    menu = [json.loads(m) for m in extract_json_prints(out, "MENU")][0]
    def progs():
        for i, d in enumerate(map(json.loads, extract_json_prints(out, "PROG"))):
            if not d["enforced"]:
                continue
            chunks = [menu[j - 1] for j in d["seq"]] + [{"k": "layer", "flags": 1, "name": [76]}]
            if d["px"]:
                chunks.append({"k": "cel", "layer": 0, "ctype": 2, "w": len(d["px"]), "h": 1, "px": [[v] for v in d["px"]]})
            yield {"id": f"pal-{i}", "mode": "full", "meta": {"gen": "g1", "desc": d},
                   "prog": {"hdr": {"w": 2, "h": 1, "depth": 8, "tidx": 0, "speed": 100}, "frames": [{"dur": 100, "chunks": chunks}]}}
    cases = work.path("pal.ndjson")
    write_cases(cases, progs())
    res = stage_cases(rep, work, b, cases, "palette-sequences")
    return res, cases, k


def c11(rep, work, tier, seed):
    b = build("dev")
    k = 2 if tier == "quick" else 3
    out, states = mc_run(rep, work, "MC_Palette", {"MaxChunks": k, "MaxPixels": 2}, ["PaletteInv", "Export"], workers=8)
    menu = [json.loads(m) for m in extract_json_prints(out, "MENU")][0]
    def progs():
        for i, d in enumerate(map(json.loads, extract_json_prints(out, "PROG"))):
            if not d["enforced"]:
                continue
            chunks = [menu[j - 1] for j in d["seq"]] + [{"k": "layer", "flags": 1, "name": [76]}]
            if d["px"]:
                chunks.append({"k": "cel", "layer": 0, "ctype": 2, "w": len(d["px"]), "h": 1, "px": [[v] for v in d["px"]]})
            yield {"id": f"pal-{i}", "mode": "full", "meta": {"gen": "g1", "desc": d},
                   "prog": {"hdr": {"w": 2, "h": 1, "depth": 8, "tidx": 0, "speed": 100}, "frames": [{"dur": 100, "chunks": chunks}]}}
    cases = work.path("pal.ndjson")
    n = write_cases(cases, progs())
    rep.sample(first_cases(cases, 40)[-1])
    res = stage_cases(rep, work, b, cases, "palette-sequences")
    # G3: sprites with random palettes of all three kinds (full 256-entry ranges included in 'struct')
    g3 = work.path("g3.ndjson")
    gen(b, g3, "cel", seed, 150 if tier == "quick" else 3000)
    res2 = stage_cases(rep, work, b, g3, "g3-cel")
    if res["outcomes"][1] == 0:
        rep.error("no palette program was classified must-fail: the missing-index rule was not exercised")
    rep.cov["distinct_nontrivial"] = res["outcomes"][0] + res["outcomes"][1]
    rep.final = dict(rule=f"all sequences of <= {k} palette chunks from a 10-entry menu (new ranges, legacy packets, cumulative skip, count byte 0) x all "
                          "indexed pixel vectors of <= 2 pixels over {0,1,2,3,4,5,7,255} (TLC BFS); enforced for <= 1 chunk per format; plus random indexed sprites",
                     trusted=TRUSTED, exhaustive=True)


CHECKS.update({"C09": (c09, "model_checking"), "C10": (c10, "model_checking"), "C11": (c11, "model_checking")})


def corpus_stage(rep, work, b, tier):
    """G4: real Aseprite files. The library loads the ORIGINAL bytes (hooks on). For files up to a size cap the bytes travel in
    the trace and TLC itself decodes them (AseParse!Decode, zlib via the AseZlib override), loads the decoded program and
    compares the complete observation. Larger files (thorough tier) go through the harness' independent Rust decoder instead."""
    cap_bytes = 6000 if tier == "quick" else 12000
    small = work.path("corpus.bytes.ndjson")
    big = work.path("corpus.files.ndjson")
    ns = write_cases(small, ({"id": c["id"], "file": c["file"], "mode": "bytes", "meta": {"gen": "g4-corpus", "decoder": "TLA+ AseParse"}}
                             for c in corpus_case_lines(10 ** 9) if os.path.getsize(c["file"]) <= cap_bytes))
    res = stage_cases(rep, work, b, small, "corpus-bytes", shards=12, jvms=12)
    rep.cov["corpus_files_decoded_by_tlc"] = ns
    full = res["outcomes"][0]
    if tier != "quick":
        nb = write_cases(big, ({"id": c["id"], "file": c["file"]} for c in corpus_case_lines(10 ** 9) if os.path.getsize(c["file"]) > cap_bytes))
        dec = work.path("corpus.decoded.ndjson")
        r = subprocess.run([b, "decode", "--in", big, "--out", dec], capture_output=True, text=True)
        if r.returncode != 0:
            raise ToolError("decode failed: " + r.stderr[-400:])
        res2 = stage_cases(rep, work, b, dec, "corpus-decoded", shards=12, jvms=12)
        os.remove(dec)
        rep.cov["corpus_files_decoded_by_harness"] = nb
        full += res2["outcomes"][0]
        for i in range(4):
            res["outcomes"][i] += res2["outcomes"][i]
    rep.cov["corpus_files_fully_validated"] = full
    return res


def bytes_crosscheck(rep, work, b, cases, limit):
    """The harness encoder against AseBytes!Encode (TLA+), byte for byte, on TLC-enumerated programs (zlib as stored blocks),
    and EndOfFrames(bytes) against the encoder's own end-of-frames offset. A disagreement is a defect of the machinery
    (encoder or byte-level spec), never a verdict about the library: it is reported as tool trouble."""
    sel = work.path("bytes.cases.ndjson")
    with open(cases) as f, open(sel, "w") as o:
        for i, line in enumerate(f):
            if i >= limit:
                break
            o.write(line)
    paths, n = split_lines(sel, 8, work.path("bytes.in"))
    outs = []
    for pth in paths:
        o = pth.replace(".in.", ".ev.")
        r = subprocess.run([b, "encbytes", "--in", pth, "--out", o], capture_output=True, text=True)
        if r.returncode != 0:
            raise ToolError("encbytes failed: " + r.stderr[-300:])
        outs.append(o)
    res = validate_traces("Trace_Bytes", outs, jvms=8)
    rep.add_model(res["generated"], res["distinct"])
    for e in res["errors"]:
        rep.error(f"bytes cross-check: {e}")
    for rej in res["rejects"][:5]:
        rep.error("encoder and AseBytes!Encode disagree (machinery defect): " + re.sub(r"\s+", " ", rej)[:400])
    rep.stage("encoder-vs-AseBytes", programs=res["outcomes"][0], bytes_compared=res["outcomes"][1], disagreements=len(res["rejects"]))
    log(f"[{rep.pid}] encoder vs AseBytes!Encode: {res['outcomes'][0]} programs, {res['outcomes'][1]} bytes, disagreements {len(res['rejects'])}")
    for pth in paths + outs + [sel]:
        try:
            os.remove(pth)
        except OSError:
            pass


def mc_load_stage(rep, work, b, tier, depths=(32, 8)):
    """Direction A for the loader as a whole: MC_Load enumerates every chunk program up to a length over a concrete alphabet
    (all three outcome classes), each is replayed in the implementation and validated by Trace_Load."""
    maxlen = 3 if tier == "quick" else 4
    tot = [0, 0, 0, 0]
    for depth in depths:
        out, states = mc_run(rep, work, "MC_Load", {"MaxLen": maxlen, "Depth": depth}, ["FoldInv", "RenderDefinedInv", "CelOrderInv", "RoundTripInv", "Export"],
                             workers=10, name=f"MC_Load{depth}", coverage_invariants=["FoldInv", "CelOrderInv"])
        cases = work.path(f"mcload{depth}.ndjson")
        n = write_cases(cases, ({"id": f"mcload{depth}-{i}", "mode": "full", "meta": {"gen": "g1", "model": "MC_Load", "spec_outcome": d["outcome"]}, "prog": d["prog"]}
                                for i, d in enumerate(map(json.loads, extract_json_prints(out, "PROG")))))
        os.remove(out)
        if depth == depths[0]:
            rep.sample(first_cases(cases, 900, 4000)[-1])
            bytes_crosscheck(rep, work, b, cases, 4000 if tier == "quick" else 40000)
        res = batched_stage(rep, work, b, cases, f"mc-load-{depth}", batch=40000)
        for i in range(4):
            tot[i] += res["outcomes"][i]
        os.remove(cases)
    rep.cov["mc_load_programs"] = dict(zip(["ok", "err", "either", "unstructured"], tot))
    return tot


def predicted_faults_stage(rep, work, b, tier, seed, nseeds=None):
    """Single-field faults whose outcome the specification PREDICTS from the bytes: seeds are encoded with stored zlib blocks,
    every field of the encoder's field table is set to each boundary value, the patched bytes travel in the trace, and TLC
    decodes them (AseParse!Decode), loads the decoded program (AseLoad) and demands: outcome ok -> the file loads and the
    complete observation matches; err -> an error value; either/unknown -> no crash and, if it loads, a usable sprite."""
    n = nseeds or (3 if tier == "quick" else 16)
    seeds = work.path("pseeds.ndjson")
    r = subprocess.run([b, "gen", "--profile", "default", "--seed", str(seed + 41), "--n", str(n), "--stored", "--out", seeds], capture_output=True, text=True)
    if r.returncode != 0:
        raise ToolError("gen --stored failed: " + r.stderr[-300:])
    t2 = work.path("pseeds2.ndjson")
    r = subprocess.run([b, "gen", "--profile", "tile", "--seed", str(seed + 42), "--n", str(max(2, n // 2)), "--stored", "--out", t2], capture_output=True, text=True)
    with open(seeds, "a") as f:
        f.write(open(t2).read())
    ff = work.path("pfields.ndjson")
    faults(b, seeds, ff, "fields", seed, mode="bytes", maxfields=120 if tier == "quick" else 400)
    res = batched_stage(rep, work, b, ff, "fields-predicted", batch=40000, env={"ASEVER_ALLOC_CAP": ALLOC_CAP})
    # arbitrary byte-level mutants of the same seeds: TLC's decoder must classify every one of them (it is total on byte strings)
    hv = work.path("phavoc.ndjson")
    faults(b, seeds, hv, "havoc", seed, n=2500 if tier == "quick" else 60000, mode="bytes")
    resh = batched_stage(rep, work, b, hv, "havoc-predicted", batch=40000, env={"ASEVER_ALLOC_CAP": ALLOC_CAP})
    rep.cov["predicted_havoc_mutants"] = dict(zip(["must_load_exact_observation", "must_fail", "either", "unknown_or_unstructured"], resh["outcomes"]))
    rep.cov["predicted_field_faults"] = dict(zip(["must_load_exact_observation", "must_fail", "either", "unknown_or_unstructured"], res["outcomes"]))
    if res["outcomes"][0] == 0 or res["outcomes"][1] == 0:
        rep.error(f"predicted field faults: outcome classes not exercised {res['outcomes']}")
    return res


def huge_stage(rep, work, b, tier, seed):
    """Canvases up to 65535 x 65535 with tilesets of unusual tile sizes: nothing is rendered, but every dimension law, tile lookup
    and accessor is exercised at the top of the 16-bit range."""
    cases = work.path("g3huge.ndjson")
    gen(b, cases, "huge", seed + 31, 120 if tier == "quick" else 3000)
    res = stage_cases(rep, work, b, cases, "g3-huge")
    need_ok(rep, res, "g3-huge", 0.95)
    return res


def huge_extra(rep, work, tier, seed, b):
    huge_stage(rep, work, b, tier, seed)


def bigcel_extra(rep, work, tier, seed, b):
    """Cels with more than 65535 pixels whose last rows/columns are dragged onto a tiny canvas (row offsets beyond 16 bits)."""
    cases = work.path("g3bigcel.ndjson")
    gen(b, cases, "bigcel", seed + 51, 3 if tier == "quick" else 24)
    res = stage_cases(rep, work, b, cases, "g3-bigcel", shards=3 if tier == "quick" else 8, jvms=8, xmx="6g")
    need_ok(rep, res, "g3-bigcel", 0.99)


def bigmap_extra(rep, work, tier, seed, b):
    """Tilemaps whose pixel extent exceeds 16 bits in one direction (long thin tiles x several hundred tiles) on a tiny canvas:
    tile origins beyond 65535 must stay off canvas, lookups and images must still agree."""
    cases = work.path("g3bigmap.ndjson")
    gen(b, cases, "bigmap", seed + 53, 12 if tier == "quick" else 80)
    res = stage_cases(rep, work, b, cases, "g3-bigmap", shards=4 if tier == "quick" else 8, jvms=8, xmx="6g")
    need_ok(rep, res, "g3-bigmap", 0.99)


def single_extra(rep, work, tier, seed, b):
    """Sprites with one or two layers (image or tilemap, any blend mode / opacity, cels hanging over every edge): frames with exactly
    one contributing layer must equal that layer's cel image, whatever the layer's mode, opacity, kind or position."""
    cases = work.path("g3single.ndjson")
    gen(b, cases, "single", seed + 55, 600 if tier == "quick" else 6000)
    res = stage_cases(rep, work, b, cases, "g3-single")
    need_ok(rep, res, "g3-single", 0.95)


def both_extras(*fs):
    def f(rep, work, tier, seed, b):
        for g in fs:
            g(rep, work, tier, seed, b)
    return f


CEL_SIZE_CLASSES = {"zlib_cel_declares_less", "zlib_cel_declares_fewer_rows", "zlib_cel_declares_more", "zlib_cel_declares_much_more"}


def celsize_extra(rep, work, tier, seed, b):
    """Image cels whose declared size disagrees with their (compressed) data - out of contract, the library accepts surplus data:
    if such a sprite loads, every cel image must still be transparent outside the rectangle the cel declares."""
    hosts = work.path("celsize-hosts.ndjson")
    gen(b, hosts, "cel", seed + 57, 160 if tier == "quick" else 1500)
    inc = work.path("celsize.ndjson")
    with open(inc, "w") as f:
        for line in open(hosts):
            c = json.loads(line)
            for name, q in inconsistencies(c["prog"]):
                if name in CEL_SIZE_CLASSES:
                    f.write(json.dumps({"id": f"{c['id']}|{name}", "mode": "full", "meta": {"gen": "g5-inconsistency", "class": name}, "prog": q}) + "\n")
    stage_cases(rep, work, b, inc, "cel-size-inconsistencies", env={"ASEVER_ALLOC_CAP": ALLOC_CAP})


def g3_check(pid, profile, nq, nt, rule, extra=None):
    def f(rep, work, tier, seed):
        b = build("dev")
        cases = work.path("g3.ndjson")
        gen(b, cases, profile, seed, nq if tier == "quick" else nt)
        res = stage_cases(rep, work, b, cases, f"g3-{profile}")
        need_ok(rep, res, f"g3-{profile}", 0.95)
        rep.sample(first_cases(cases, 1, 6000)[0])
        rep.cov["distinct_nontrivial"] = res["outcomes"][0]
        resc = corpus_stage(rep, work, b, tier)
        rep.cov["distinct_nontrivial"] += resc["outcomes"][0]
        if extra:
            extra(rep, work, tier, seed, b)
        rep.final = dict(rule=rule + "; plus the repository's real Aseprite files (independent decoder -> program; library loads the original bytes)", trusted=TRUSTED)
    return f


def corpus_cases():
    import glob
    files = sorted(glob.glob("/repo/tests/data/*.aseprite") + glob.glob("/repo/examples/**/*.aseprite", recursive=True))
    return files


CHECKS.update({
    "C02": (g3_check("C02", "render", 600, 6000, extra=both_extras(bigcel_extra, bigmap_extra), rule=
                     "random/boundary sprites (canvas <= 6x6, <= 5 layers, all 19 modes, opacities, hidden layers/groups, linked and tilemap cels, "
                     "offsets incl. i16 extremes); every pixel of every frame image recomputed by TLC from AseRender.FrameImage"), "model_checking"),
    "C06": (g3_check("C06", "cel", 800, 8000, extra=both_extras(bigcel_extra, celsize_extra), rule=
                     "random/boundary sprites in the three pixel formats (sparse palettes, alpha < 255, all transparent-index positions, background "
                     "flag, raw/zlib/stored storage, links); every cel image and cel fact recomputed by TLC (AseRender.CelImage)"), "model_checking"),
    "C08": (g3_check("C08", "tile", 800, 8000, extra=both_extras(huge_extra, bigmap_extra), rule=
                     "random sprites with tilesets (tile sizes 1..3, counts 1..4, three formats) and tilemap cels at tile-aligned offsets incl. "
                     "off-canvas; tile lookups on a grid incl. far coordinates, tilemap image, tile/tileset images recomputed by TLC; "
                     "plus canvases and tile sizes up to the format maximum (dimension laws and lookups only)"), "model_checking"),
    "C19": (g3_check("C19", "default", 600, 8000, extra=both_extras(single_extra, bigmap_extra), rule=
                     "random sprites with non-square frame x layer counts; the three cel routes, single-visible-layer frames and tilemap images "
                     "compared by TLC"), "model_checking"),
})


# ------------------------------------------------------------------------------------------
# C03 / C17: blend vectors
BLEND_C03 = {"blend_reference", "blend_shape"}
BLEND_C17 = {"blend_law_alpha", "blend_law_transparent_source", "blend_law_transparent_backdrop", "blend_law_opaque_normal",
             "blend_panic", "blend_shape"}


def blend_stage(rep, work, binpath, stratum, seed, n, kinds, modes=None, shards=12):
    prefix = work.path(f"bl-{stratum}")
    cmd = [binpath, "blend", "--stratum", stratum, "--seed", str(seed), "--n", str(n), "--out", prefix, "--shards", str(shards)]
    if modes:
        cmd += ["--modes", ",".join(map(str, modes))]
    t0 = time.time()
    r = subprocess.run(cmd, capture_output=True, text=True)
    if r.returncode != 0:
        raise ToolError(f"blend driver failed: {r.stderr[-500:]}")
    info = json.loads(r.stdout.strip().splitlines()[-1])
    traces = [f"{prefix}.{i}" for i in range(shards) if os.path.getsize(f"{prefix}.{i}") > 0]
    if stratum == "chan" and not rep.cov["samples"]:
        with open(traces[0]) as f:
            e = json.loads(f.readline())
            rep.sample({"m": e["m"], "lop": e["lop"], "cop": e["cop"], "B": e["B"][:2], "S": e["S"][:2], "R": e["R"][:2]})
    res = validate_traces("Trace_Blend", traces, jvms=shards, xmx="2g")
    rep.add_model(res["generated"], res["distinct"])
    rep.cov["traces_validated_against_impl"] += info["events"]
    rep.cov["evaluations"] += info["vectors"]
    rep.cov["distinct_nontrivial"] += res["outcomes"][1]
    for e in res["errors"]:
        rep.error(f"blend stage {stratum}: {e}")
    other = 0
    for rej in res["rejects"]:
        sig = sig_of_reject(rej)
        if sig.split(":")[0] not in kinds:
            other += 1
            continue
        rep.violation(sig, re.sub(r"\s+", " ", rej)[:900], {"property": rep.pid, "stage": f"blend:{stratum}", "seed": seed, "n": n, "tlc": rej,
                                                             "blend": {"stratum": stratum, "modes": modes}})
    rep.stage(f"blend:{stratum}", vectors=info["vectors"], events=info["events"], checked_by_tlc=res["outcomes"][0],
              both_visible=res["outcomes"][1], tlc_s=round(res["wall"], 1), rejects=len(res["rejects"]), other_property_rejects=other)
    log(f"[{rep.pid}] blend {stratum}: {info['vectors']} vectors, tlc {res['wall']:.1f}s, rejects {len(res['rejects'])} (other: {other})")
    for t in traces:
        os.remove(t)
    if res["outcomes"][0] != info["vectors"]:
        rep.error(f"blend stage {stratum}: TLC evaluated {res['outcomes'][0]} of {info['vectors']} vectors")


def blend_plan(tier):
    if tier == "quick":
        return [("chan", 1), ("lattice", 60000), ("random", 60000), ("hsl", 40000), ("laws", 40000)]
    return [("chan", 1), ("chanalpha", 1), ("opacity", 1), ("lattice", 1500000), ("random", 3000000), ("hsl", 1000000), ("laws", 500000)]


def c03(rep, work, tier, seed):
    b = build("relchk")
    for stratum, n in blend_plan(tier):
        if stratum == "laws":
            continue
        modes = [0, 3, 12] if stratum == "opacity" else None
        blend_stage(rep, work, b, stratum, seed, n, BLEND_C03, modes=modes)
    rep.assumptions.append("soft light / hue / saturation / colour / luminosity: the binary64 kernel is a TLC Java module override (AseFloat.java), "
                           "i.e. a second transcription of Aseprite's C++; the 14 integer modes, alpha, opacity and the wrapper are pure TLA+")
    rep.final = dict(rule="vectors (mode, backdrop, source, layer opacity, cel opacity) rendered through Frame::image and compared by TLC with AseBlend.Blend: "
                          "complete 2^16 channel tables of 14 modes at full alpha; boundary lattice; seeded random vectors over the full space; HSL tie cases; "
                          "(thorough: 2^16 x 6x6 alpha grid, all 2^16 opacity pairs). non-trivial = both pixels visible and opacity product > 0",
                     trusted=TRUSTED + ["AseFloat.java override for the five binary64 modes"],
                     explanation="exploration with the TLA+ blend algebra as the executable reference; not exhaustive over 19 x 2^80")


def tlaps_stage(rep, work, tier):
    """Unbounded argument for the laws of C17 on the specification: tlapm (SMT back end) proves spec/tlaps/AseArithProofs.tla -
    alpha law, transparent source / zero opacity, transparent backdrop, opaque Normal and the 0..255 range - for every backdrop,
    source, blend source and opacity, about the very definitions (AseArith.tla) that AseBlend extends and Trace_Blend binds to the
    code. A proof that does not go through on the unchanged spec is a tool problem, never an implementation verdict. The thorough
    tier adds the negative control: a deliberately false lemma must be refuted."""
    t0 = time.time()
    cache = work.path("tlacache")
    def run(mod):
        return subprocess.run(["timeout", "900", "tlapm", "--threads", "8", "--cleanfp", "--cache-dir", cache, "-I", SPEC, f"{SPEC}/tlaps/{mod}.tla"],
                              capture_output=True, text=True, cwd=work.dir)
    r = run("AseArithProofs")
    m = re.search(r"All (\d+) obligations? proved", r.stdout + r.stderr)
    if r.returncode != 0 or not m:
        raise ToolError("tlapm did not prove AseArithProofs: " + (r.stdout + r.stderr)[-400:])
    rep.cov["tlaps_obligations_proved"] = int(m.group(1))
    neg = None
    if tier == "thorough":
        r2 = run("AseArithNeg")
        neg = bool(re.search(r"obligations? failed", r2.stdout + r2.stderr)) and r2.returncode != 0
        if not neg:
            raise ToolError("tlapm negative control (AseArithNeg) was not refuted")
        rep.cov["tlaps_negative_control_refuted"] = True
    rep.stage("tlaps:AseArithProofs", obligations=int(m.group(1)), negative_control=neg, wall_s=round(time.time() - t0, 1))
    log(f"[{rep.pid}] tlapm AseArithProofs: {m.group(1)} obligations proved, {time.time()-t0:.1f}s")


def c17(rep, work, tier, seed):
    b = build("relchk")
    tlaps_stage(rep, work, tier)
    lattice = "{0, 128, 255}" if tier == "quick" else "{0, 1, 128, 255}"
    mc_run(rep, work, "MC_Blend", {"Lattice": lattice, "Ops": "{0, 1, 128, 255}"},
           ["AlphaLawInv", "NormalAlphaInv", "ProductInv", "ChannelInv", "LerpInv", "SkeletonInv", "LatticeLawsInv"], workers=14)
    rep.cov["model_evaluations"] = 256 * 65536 * 3 + 65536 * 15
    for stratum, n in blend_plan(tier):
        if stratum in ("chanalpha",) and tier == "quick":
            continue
        modes = [0, 3, 12, 17] if stratum == "opacity" else None
        blend_stage(rep, work, b, stratum, seed + 17, n, BLEND_C17, modes=modes)
    rep.final = dict(rule="on the model: alpha law over all 2^24 (Ba,Sa,op), opacity product over all 2^16 pairs, channel range over all 2^16 (b,s) of 14 "
                          "channel functions, the four laws on a boundary lattice for all 19 modes (TLC, exhaustive within those sub-spaces); on the "
                          "implementation: the same laws checked by TLC directly on rendered vectors (overflow checks and debug assertions on)",
                     trusted=TRUSTED, exhaustive=False)


CHECKS.update({"C03": (c03, "exploration"), "C17": (c17, "model_checking")})


def c07(rep, work, tier, seed):
    b = build("dev")
    cases = work.path("g3v.ndjson")
    n, v = (120, 13) if tier == "quick" else (2500, 26)
    gen(b, cases, "default", seed, n, variants=v)
    res = batched_stage(rep, work, b, cases, "g3-variants", batch=20000)
    need_ok(rep, res, "g3-variants", 0.95)
    cs = first_cases(cases, 3, 8000)
    rep.sample({"base": cs[0].get("id"), "variant": cs[1].get("id"), "choice": cs[1].get("meta", {}).get("choice")})
    rep.cov["distinct_nontrivial"] = res["outcomes"][0]
    rep.final = dict(rule=f"{n} random sprites x {v} encodings each (one neutral choice flipped at a time, then all at once: cel storage raw/zlib level/stored "
                          "blocks, count field old/new/both/0xFFFF, ignorable chunks at every position, unused field values, zero pixel-ratio component, "
                          "chunk padding, trailing bytes, redundant legacy palette, cel chunk order); every encoding must yield the observation the "
                          "specification derives from the sprite (which does not mention the choices), hence equal observations",
                     trusted=TRUSTED)


CHECKS["C07"] = (c07, "model_checking")


# ------------------------------------------------------------------------------------------
# C13 / C14: reader behaviour
def driver_stage(rep, work, binpath, sub, cases, name, extra_args, spec="Trace_Read", shards=12, kinds=None):
    """Run a harness driver (cuts / readers) over case shards in parallel, validate its traces with TLC."""
    paths, n = split_lines(cases, shards, work.path(name + ".in"))
    outs = [p.replace(".in.", ".ev.") for p in paths]
    t0 = time.time()
    def one(a):
        r = subprocess.run([binpath, sub, "--in", a[0], "--out", a[1]] + extra_args, capture_output=True, text=True)
        if r.returncode != 0:
            raise ToolError(f"{sub} driver failed rc={r.returncode}: {r.stderr[-600:]}")
    with ThreadPoolExecutor(max_workers=len(paths) or 1) as ex:
        list(ex.map(one, zip(paths, outs)))
    t1 = time.time()
    res = validate_traces(spec, outs, jvms=shards, xmx="3g")
    rep.add_model(res["generated"], res["distinct"])
    for e in res["errors"]:
        rep.error(f"stage {name}: {e}")
    for rej in res["rejects"]:
        sig = sig_of_reject(rej)
        if sig.split(":")[0] == "end_of_frames_differs":
            rep.error("harness end-of-frames offset and AseBytes!EndOfFrames disagree (machinery defect): " + re.sub(r"\s+", " ", rej)[:300])
            continue
        if kinds is not None and sig.split(":")[0] not in kinds:
            continue
        cid = reject_case_id(rej)
        c = find_case(cases, cid) or {"id": cid}
        rep.violation(sig, re.sub(r"\s+", " ", rej)[:900], {"property": rep.pid, "stage": name, "case": c, "tlc": rej, "spec": spec, "driver": sub, "args": extra_args})
    rep.stage(name, files=n, driver_s=round(t1 - t0, 1), tlc_s=round(res["wall"], 1), counters=res["outcomes"], rejects=len(res["rejects"]))
    log(f"[{rep.pid}] stage {name}: {n} files, driver {t1-t0:.1f}s, tlc {res['wall']:.1f}s, counters {res['outcomes']}, rejects {len(res['rejects'])}")
    if not os.environ.get("VERIF_KEEP"):
        for o in outs + paths:
            try:
                os.remove(o)
            except OSError:
                pass
    return res, n


def corpus_case_lines(maxbytes):
    for f in corpus_cases():
        if os.path.getsize(f) <= maxbytes:
            yield {"id": "corpus:" + os.path.relpath(f, "/repo"), "file": f, "mode": "light"}


def files_for_readers(work, b, seed, n, maxbytes, profile="default"):
    cases = work.path("files.ndjson")
    gen(b, cases, profile, seed, n)
    with open(cases, "a") as f:
        for c in corpus_case_lines(maxbytes):
            f.write(json.dumps(c) + "\n")
    return cases


def apalache_reader_stage(rep, work):
    """Unbounded argument for the reader abstraction (spec/apalache/AseReadInt.tla): Apalache discharges that IndInv is
    inductive and implies TruncatedFails / NeverBeyond / OkMeansAll for streams, request lists and scripts of any size.
    Runs under a timeout and is reported in the evidence; a counterexample would be a defect of the specification (tool error)."""
    spec = f"{SPEC}/apalache/AseReadInt.tla"
    obligations = [("Init => IndInv", ["--init=Init", "--inv=IndInv", "--length=0"]),
                   ("IndInv /\\ Next => IndInv'", ["--init=IndInv", "--inv=IndInv", "--length=1"]),
                   ("IndInv => TruncatedFails /\\ NeverBeyond /\\ OkMeansAll", ["--init=IndInv", "--inv=Safety", "--length=0"])]
    done = 0
    t0 = time.time()
    for name, args in obligations:
        out = work.path("apalache-out")
        r = subprocess.run(["timeout", "300", "apalache-mc", "check", f"--out-dir={out}"] + args + [spec], capture_output=True, text=True, cwd=work.dir)
        txt = r.stdout + r.stderr
        if "EXITCODE: OK" in txt:
            done += 1
        elif "violated" in txt or "Found 1 error" in txt:
            rep.error(f"Apalache found a counterexample to '{name}' in AseReadInt.tla (specification defect)")
        else:
            log(f"[{rep.pid}] apalache obligation '{name}' inconclusive (rc={r.returncode})")
        subprocess.run(["rm", "-rf", out])
    rep.stage("apalache:AseReadInt", obligations=len(obligations), discharged=done, wall_s=round(time.time() - t0, 1))
    rep.cov["apalache_obligations"] = len(obligations)
    rep.cov["apalache_discharged"] = done
    log(f"[{rep.pid}] apalache AseReadInt: {done}/{len(obligations)} obligations discharged, {time.time()-t0:.1f}s")


def last_chunk_variants(prog, big=False):
    """Well-formed sprites whose LAST frame ends in each chunk kind (and shapes with an empty last frame / no frames at all):
    a truncation inside the trailing bytes of any chunk kind, or inside a bare frame header, must be refused (C13)."""
    import copy
    tails = {
        "image_layer": [{"k": "layer", "flags": 1, "name": [90]}],
        "group_layer": [{"k": "layer", "flags": 1, "ltype": 1, "name": []}],
        "tilemap_layer": [{"k": "tileset", "id": "9", "flags": 6, "count": 1, "tw": 1, "th": 1, "name": [], "px": [[0, 0, 0, 0]] if prog["hdr"].get("depth", 32) == 32 else ([[0, 0]] if prog["hdr"].get("depth") == 16 else [[prog["hdr"].get("tidx", 0)]])},
                          {"k": "layer", "flags": 1, "ltype": 2, "tileset": ["9"], "name": [84]}],
        "profile": [{"k": "profile", "ptype": 1, "flags": 0}],
        "extfiles": [{"k": "extfiles", "entries": [{"id": "3", "etype": 1, "name": [101, 102]}]}],
        "extfiles_empty_name": [{"k": "extfiles", "entries": [{"id": "4", "etype": 0, "name": []}]}],
        "slice_no_keys": [{"k": "slice", "name": [115], "flags": 0, "keys": []}],
        "slice_with_pivot": [{"k": "slice", "name": [], "flags": 3, "keys": [{"frame": "0", "x": "1", "y": "2", "w": "3", "h": "4", "s9": {"cx": "1", "cy": "1", "cw": "1", "ch": "1"}, "pivot": {"x": "-1", "y": "5"}}]}],
        "user_data_text": [{"k": "layer", "flags": 1, "name": [1]}, {"k": "ud", "text": [[104, 105]], "color": []}],
        "user_data_color": [{"k": "layer", "flags": 1, "name": [2]}, {"k": "ud", "text": [], "color": [[1, 2, 3, 4]]}],
        "user_data_empty": [{"k": "layer", "flags": 1, "name": [3]}, {"k": "ud", "text": [], "color": []}],
        "celextra": [{"k": "celextra", "body": [0] * 20}],
        "mask": [{"k": "mask", "body": [7, 7, 7]}],
        "path_empty": [{"k": "path", "body": []}],
        "legacy_palette": [{"k": "oldpal04", "packets": [{"skip": 0, "count": 1, "rgb": [[1, 2, 3]]}]}],
    }
    if big:
        # bodies above 64 KiB (read in several steps) whose content no parser looks at
        tails["mask_70000"] = [{"k": "mask", "body": [7] * 70000}]
        tails["celextra_66000"] = [{"k": "celextra", "body": [0] * 66000}]
    out = []
    base_ok = prog["hdr"].get("depth", 32) != 8          # keep indexed hosts' palettes untouched
    for name, tail in tails.items():
        if name == "legacy_palette" and not base_ok:
            continue
        q = copy.deepcopy(prog)
        for fr in q["frames"]:
            fr.pop("pads", None)
        q["frames"][-1]["chunks"] = q["frames"][-1]["chunks"] + copy.deepcopy(tail)
        out.append((name, q))
    if len(prog["frames"]) >= 1:
        q = copy.deepcopy(prog)
        for fr in q["frames"]:
            fr.pop("pads", None)
        q["frames"].append({"dur": 5, "chunks": []})            # an empty last frame: a bare 16-byte frame header
        q["hdr"]["nframes"] = len(q["frames"])
        out.append(("empty_last_frame", q))
    out.append(("no_frames", {"hdr": dict(prog["hdr"], nframes=0), "frames": []}))
    if base_ok:
        q = {"hdr": dict(prog["hdr"], nframes=1), "frames": [{"dur": 1, "chunks": [{"k": "tags", "tags": [{"from": 0, "to": 0, "dir": 0, "repeat": 0, "name": [116, 97, 103]}]}]}]}
        out.append(("tags_last", q))
        q = {"hdr": dict(prog["hdr"], nframes=1), "frames": [{"dur": 1, "chunks": [{"k": "pal", "first": 0, "last": 1, "entries": [{"flags": 0, "rgba": [1, 2, 3, 255]}, {"flags": 1, "rgba": [4, 5, 6, 255], "name": [110, 97, 109, 101]}]}]}]}
        out.append(("named_palette_last", q))
    return out


def c13(rep, work, tier, seed):
    b = build("dev")
    apalache_reader_stage(rep, work)
    mc_run(rep, work, "MC_Read", {"MaxInt": 1, "MaxExtra": 1}, ["NoBad", "NeverBeyond", "TruncatedFails", "OkMeansAll"], workers=4)
    cases = files_for_readers(work, b, seed, 40 if tier == "quick" else 1200, 3000 if tier == "quick" else 40000)
    # other encodings of sprites: chunk padding, ignorable chunks (possibly last in the frame), trailing bytes, raw cels ...
    var = work.path("variants.ndjson")
    gen(b, var, "rgba", seed + 2, 6 if tier == "quick" else 100, variants=12)
    with open(cases, "a") as f:
        for line in open(var):
            c = json.loads(line)
            c.pop("group", None)
            f.write(json.dumps(c) + "\n")
    # every chunk kind as the last chunk of the last frame; an empty last frame; a sprite without frames
    hosts = work.path("lasthosts.ndjson")
    gen(b, hosts, "rgba", seed + 4, 3 if tier == "quick" else 30)
    gen(b, work.path("lasthosts2.ndjson"), "default", seed + 5, 3 if tier == "quick" else 30)
    with open(cases, "a") as f:
        for hp in (hosts, work.path("lasthosts2.ndjson")):
            for line in open(hp):
                c = json.loads(line)
                for name, q in last_chunk_variants(c["prog"], big=(hp == hosts and c["id"].endswith("-0"))):
                    f.write(json.dumps({"id": f"{c['id']}|last={name}", "prog": q, "mode": "light", "meta": {"gen": "g3-last-chunk", "last": name}}) + "\n")
    # large files (chunk bodies far beyond 64 KiB): cut positions sampled around every chunk start, every multiple of 64 KiB, both ends
    bigc = work.path("cutbig.ndjson")
    gen(b, bigc, "bigcel", seed + 6, 2 if tier == "quick" else 10)
    with open(cases, "a") as f:
        f.write(open(bigc).read())
    res, n = driver_stage(rep, work, b, "cuts", cases, "cuts", [], kinds={"cut_full_file_fails", "cut_prefix_loaded"})
    rep.cov["traces_validated_against_impl"] += res["outcomes"][0]
    rep.cov["evaluations"] += res["outcomes"][1]
    rep.cov["distinct_nontrivial"] = res["outcomes"][1]
    rep.sample({"file": first_cases(cases, 1, 100000)[0].get("id"), "cuts": "every offset 0..end_of_last_frame-1 plus the exact end"})
    if res["outcomes"][0] < 0.9 * n:
        rep.error(f"cuts: only {res['outcomes'][0]} of {n} files were valid and evaluated")
    rep.final = dict(rule="for every file (random sprites + corpus files under the size cap) EVERY prefix length 0..end_of_last_frame-1 is loaded and must give "
                          "an error value; the exact end must load; evaluations = number of (file, cut) pairs; model: AseRead.TruncatedFails for all small streams",
                     trusted=TRUSTED, exhaustive=True)


def c14(rep, work, tier, seed):
    b = build("dev")
    apalache_reader_stage(rep, work)
    mc_run(rep, work, "MC_Read", {"MaxInt": 2, "MaxExtra": 1}, ["FoldIsState", "NoBad", "NeverBeyond", "TruncatedFails", "ScriptIndependent", "OkMeansAll", "HardReturned"], workers=4)
    cases = files_for_readers(work, b, seed + 3, 10 if tier == "quick" else 120, 700 if tier == "quick" else 3000, profile="rgba")
    scripts = "F,1,H,IF,I1,1H,FI1H,HHI,II1,1F1" if tier == "quick" else "F,1,H,IF,I1,1H,FI1H,HHI,II1,1F1,HF,IHF,11H,1IIF,H1"
    kinds = "-2,-3" if tier == "quick" else "-2,-3,-4,-5,-6,-7"
    # a chunk body larger than 64 KiB (bodies are read in bounded steps): few scripts, strided error offsets
    bigf = work.path("bigbody.ndjson")
    write_cases(bigf, [{"id": "bigbody-raw-200x100", "mode": "light", "prog": {"hdr": {"w": 4, "h": 4, "depth": 32}, "frames": [{"dur": 1, "chunks": [
        {"k": "layer", "flags": 1, "name": [76]},
        {"k": "cel", "layer": 0, "ctype": 0, "w": 200, "h": 100, "px": [[(i * 7) % 256, (i // 200) % 256, 3, 255] for i in range(20000)]},
        {"k": "cel", "layer": 0, "ctype": 1, "link": 0} if False else {"k": "path", "body": []}]}]}}])
    resb, nb = driver_stage(rep, work, b, "readers", bigf, "readers-bigbody", ["--scripts", "F,IF,HFI,FHI,IHF,FFI", "--kinds", "-2,-5", "--every", "0", "--maxoff", "150"],
                            kinds={"reader_baseline", "reader_call_sequence", "reader_stopped_early", "reader_result_differs", "reader_eof_not_error",
                                   "reader_error_not_returned", "reader_variant_differs"})
    res, n = driver_stage(rep, work, b, "readers", cases, "readers", ["--scripts", scripts, "--kinds", kinds, "--every", "1" if tier == "quick" else "0", "--maxoff", "400"] + (["--rotate"] if tier == "quick" else []),
                          kinds={"reader_baseline", "reader_call_sequence", "reader_stopped_early", "reader_result_differs", "reader_eof_not_error",
                                 "reader_error_not_returned", "reader_variant_differs"})
    rep.cov["traces_validated_against_impl"] += res["outcomes"][1]
    rep.cov["evaluations"] += res["outcomes"][1]
    rep.cov["read_calls_replayed"] = res["outcomes"][2]
    rep.cov["distinct_nontrivial"] = res["outcomes"][1]
    rep.sample({"file": first_cases(cases, 1, 100000)[0].get("id"), "scripts": scripts, "hard_error_kinds": kinds, "offsets": "every byte offset 0..len"})
    rep.final = dict(rule="per file: cyclic reader scripts over {full, 1 byte, half, Interrupted}; one hard I/O error of each kind at EVERY byte offset (incl. past the "
                          "needed bytes); BufReader, Cursor and File readers. Every recorded read(len)->ret call is replayed through AseRead.Step by TLC; "
                          "the loader's result must equal the machine's (ok + equal observation, or IoError(kind) with the injected error as source)",
                     trusted=TRUSTED)


CHECKS.update({"C13": (c13, "fault_enumeration"), "C14": (c14, "model_checking")})


# ------------------------------------------------------------------------------------------
# C15: unsupported features
def feature_switches(prog):
    """Every way of switching on ONE documented-unsupported feature at a position where it can occur (input generation only;
    the specification decides that each must be refused)."""
    import copy
    out = []
    def sw(name, f):
        q = copy.deepcopy(prog)
        f(q)
        out.append((name, q))
    for v in [(2, 1), (1, 2), (3, 3), (255, 254)]:
        sw("pixel_ratio", lambda q, v=v: q["hdr"].update(pixw=v[0], pixh=v[1]))
    for v in [0, 1, 15, 24, 33, 64, 65535]:
        sw("depth", lambda q, v=v: q["hdr"].update(depth=v))
    for fi, fr in enumerate(prog["frames"]):
        for ci, c in enumerate(fr["chunks"]):
            k = c["k"]
            def at(q, fi=fi, ci=ci):
                return q["frames"][fi]["chunks"][ci]
            if k == "layer":
                for v in [3, 255, 65535]:
                    sw("layer_type", lambda q, v=v, at=at: at(q).update(ltype=v))
                for v in [19, 255, 65535]:
                    sw("blend_mode", lambda q, v=v, at=at: at(q).update(blend=v))
            elif k == "cel":
                for v in [4, 65535]:
                    sw("cel_type", lambda q, v=v, at=at: at(q).update(ctype=v))
                if c.get("ctype") == 3:
                    for v in [8, 16, 0, 33]:
                        sw("bits_per_tile", lambda q, v=v, at=at: at(q).update(bits=v))
            elif k == "tags" and fi == 0:
                for ti in range(len(c["tags"])):
                    for v in [3, 255]:
                        sw("anim_direction", lambda q, v=v, ti=ti, at=at: at(q)["tags"][ti].update(dir=v))
            elif k == "profile":
                sw("icc_profile", lambda q, at=at: at(q).update(ptype=2, icc=[1, 2, 3]))
                sw("fixed_gamma", lambda q, at=at: at(q).update(flags=1))
            elif k == "tileset":
                sw("tileset_not_embedded", lambda q, at=at: at(q).update(flags=at(q)["flags"] & ~2 | 1))
    # a tags chunk in a later frame is ignored for its content, but an unknown direction in it is still an unknown direction
    if len(prog["frames"]) >= 2:
        for v in [3, 255]:
            sw("anim_direction", lambda q, v=v: q["frames"][-1]["chunks"].append({"k": "tags", "tags": [{"from": 0, "to": 0, "dir": v, "repeat": 0, "name": [120]}]}))
    # a profile chunk can be added anywhere: add one at the front of frame 0
    # (possibly after a supported one: the first profile chunk of a file is not the only one that counts)
    for fi in sorted({0, len(prog["frames"]) - 1} if prog["frames"] else set()):
        sw("icc_profile", lambda q, fi=fi: q["frames"][fi]["chunks"].insert(0, {"k": "profile", "ptype": 2, "flags": 0, "icc": [9, 9]}))
        sw("fixed_gamma", lambda q, fi=fi: q["frames"][fi]["chunks"].append({"k": "profile", "ptype": 0, "flags": 1}))
        sw("icc_profile", lambda q, fi=fi: q["frames"][fi]["chunks"].extend([{"k": "profile", "ptype": 1, "flags": 0}, {"k": "profile", "ptype": 2, "flags": 0, "icc": [1]}]))
        sw("fixed_gamma", lambda q, fi=fi: q["frames"][fi]["chunks"].extend([{"k": "profile", "ptype": 0, "flags": 0}, {"k": "profile", "ptype": 1, "flags": 1}]))
    for name, q in out:
        for fr in q["frames"]:
            fr.pop("pads", None)
    return out


def c15(rep, work, tier, seed):
    b = build("dev")
    out, states = mc_run(rep, work, "MC_Refuse", {}, ["RefusalInv", "Export"], workers=4)
    cases = work.path("refuse.ndjson")
    nsw = 0
    def progs():
        nonlocal nsw
        for i, d in enumerate(map(json.loads, extract_json_prints(out, "PROG"))):
            if d["feature"] != "none":
                nsw += 1
            yield {"id": f"refuse-{i}-{d['feature']}", "mode": "full", "meta": {"gen": "g1", "feature": d["feature"]}, "prog": d["prog"]}
    n = write_cases(cases, progs())
    res = stage_cases(rep, work, b, cases, "model-hosts")
    if res["outcomes"][1] != nsw or res["outcomes"][0] != n - nsw:
        rep.error(f"expected {nsw} must-fail and {n-nsw} well-formed programs, specification classified {res['outcomes']}")
    rep.sample(first_cases(cases, 5, 5000)[-1])
    # G3 hosts: every position of random sprites
    hosts = work.path("hosts.ndjson")
    gen(b, hosts, "default", seed, 25 if tier == "quick" else 600)
    sw_cases = work.path("switched.ndjson")
    m = 0
    with open(sw_cases, "w") as f:
        for line in open(hosts):
            c = json.loads(line)
            f.write(json.dumps(c) + "\n")
            sws = feature_switches(c["prog"])
            if len(sws) > 160:
                import random
                sws = random.Random(seed).sample(sws, 160)
            for j, (name, q) in enumerate(sws):
                m += 1
                f.write(json.dumps({"id": f"{c['id']}|{name}#{j}", "mode": "full", "meta": {"gen": "g5-feature", "feature": name}, "prog": q}) + "\n")
    res2 = batched_stage(rep, work, b, sw_cases, "g3-hosts", batch=30000)
    # byte level: every field of random sprites at every boundary value; TLC decodes the bytes and says which must be refused
    resp = predicted_faults_stage(rep, work, b, tier, seed)
    rep.cov["byte_level_must_fail_cases"] = resp["outcomes"][1]
    if res2["outcomes"][1] != m:
        rep.error(f"{m} feature switches generated but the specification classified {res2['outcomes'][1]} programs as must-fail")
    rep.cov["distinct_nontrivial"] = res["outcomes"][1] + res2["outcomes"][1]
    rep.final = dict(rule="(host program, unsupported feature, position): all 53 switches on 3 model hosts (TLC, RefusalInv) and every applicable position of random "
                          "sprites; each switched file must fail to load, each unswitched host must load; non-trivial = switched cases",
                     trusted=TRUSTED, exhaustive=False)


CHECKS["C15"] = (c15, "model_checking")


# ------------------------------------------------------------------------------------------
# C04 / C05 / C12: faults
def faults(binpath, cases, out, kind, seed, n=0, mode="light", classes=None, maxfields=None):
    cmd = [binpath, "faults", "--in", cases, "--kind", kind, "--seed", str(seed), "--n", str(n), "--mode", mode, "--out", out]
    if maxfields:
        cmd += ["--maxfields", str(maxfields)]
    if classes:
        cmd += ["--classes", classes]
    r = subprocess.run(cmd, capture_output=True, text=True)
    if r.returncode != 0:
        raise ToolError(f"faults {kind} failed: {r.stderr[-500:]}")


def inconsistencies(prog):
    """Programs with ONE internal inconsistency each (input generation; the specification classifies them as out of contract,
    so loading may fail, and if it succeeds every accessor must work)."""
    import copy
    out = []
    def mk(name, f):
        q = copy.deepcopy(prog)
        for fr in q["frames"]:
            fr.pop("pads", None)
        if f(q) is not False:
            out.append((name, q))
    def cels(q, pred):
        return [c for fr in q["frames"] for c in fr["chunks"] if c["k"] == "cel" and pred(c)]
    def first(q, pred):
        cs = cels(q, pred)
        return cs[0] if cs else None
    nl = sum(1 for c in prog["frames"][0]["chunks"] if c["k"] == "layer") if prog["frames"] else 0
    nf = len(prog["frames"])
    img = lambda c: c.get("ctype") in (0, 2)
    tm = lambda c: c.get("ctype") == 3
    def upd(q, pred, **kw):
        c = first(q, pred)
        if c is None:
            return False
        c.update(**kw)
    mk("zlib_cel_declares_more", lambda q: upd(q, img, ctype=2, w=first(q, img)["w"] + 1) if first(q, img) else False)
    mk("zlib_cel_declares_much_more", lambda q: upd(q, img, ctype=2, w=300, h=200) if first(q, img) else False)
    # duplicates: a later chunk for the same id / the same role (the specification says which one counts)
    def dup_tileset(q):
        ch = q["frames"][0]["chunks"] if q["frames"] else []
        i = next((i for i, c in enumerate(ch) if c["k"] == "tileset"), None)
        if i is None:
            return False
        d = copy.deepcopy(ch[i]); d["name"] = [100, 117, 112]; d["base"] = 7
        ch.insert(i + 1, d)
    mk("duplicate_tileset_id", dup_tileset)
    def dup_tags(q):
        if not q["frames"] or not any(c["k"] == "tags" for c in q["frames"][0]["chunks"]):
            return False
        q["frames"][0]["chunks"].append({"k": "tags", "tags": [{"from": 0, "to": 0, "dir": 1, "repeat": 2, "name": [50]}]})
    mk("duplicate_tags_chunk", dup_tags)
    def dup_ext(q):
        for fr in q["frames"]:
            for i, c in enumerate(fr["chunks"]):
                if c["k"] == "extfiles" and c["entries"]:
                    d = copy.deepcopy(c)
                    for e in d["entries"]:
                        e["name"] = [120] + list(e["name"])
                    fr["chunks"].insert(i + 1, d)
                    return
        return False
    mk("duplicate_extfile_ids", dup_ext)
    mk("zlib_cel_declares_less", lambda q: upd(q, lambda c: img(c) and c["w"] > 1, ctype=2, w=1))
    for i, c0 in enumerate(cels(prog, lambda c: img(c) and c["h"] > 1)[:6]):
        mk("zlib_cel_declares_fewer_rows", lambda q, i=i: cels(q, lambda c: img(c) and c["h"] > 1)[i].update(ctype=2, h=cels(q, lambda c: img(c) and c["h"] > 1)[i]["h"] - 1))
    mk("raw_cel_declares_zero", lambda q: upd(q, img, w=0))
    mk("tile_id_out_of_range", lambda q: (first(q, lambda c: tm(c) and c["tiles"]) or {"tiles": [0]})["tiles"].__setitem__(0, 1000) if first(q, lambda c: tm(c) and c["tiles"]) else False)
    mk("tilemap_fewer_tiles", lambda q: upd(q, tm, w=5, h=5))
    mk("tilemap_more_declared_huge", lambda q: upd(q, tm, w=2000, h=3))
    for name, kw in [("tile_width_zero", dict(tw=0)), ("tile_height_zero", dict(th=0)), ("tile_size_zero", dict(tw=0, th=0)),
                     ("tileset_count_bigger", dict(count=9)), ("tileset_count_zero", dict(count=0)), ("tileset_tile_bigger", dict(tw=4, th=4))]:
        def f(q, kw=kw):
            ts = [c for c in q["frames"][0]["chunks"] if c["k"] == "tileset"] if q["frames"] else []
            if not ts:
                return False
            ts[0].update(**kw)
        mk(name, f)
    mk("link_to_frame_out_of_range", lambda q: upd(q, lambda c: c.get("ctype") == 1, link=nf + 3))
    mk("link_to_frame_65535", lambda q: upd(q, lambda c: c.get("ctype") == 1, link=65535))
    mk("image_cel_made_link_to_self_layer_missing", lambda q: upd(q, img, ctype=1, link=nf - 1 if nf > 1 else 0))
    mk("cel_layer_out_of_range", lambda q: upd(q, lambda c: True, layer=nl + 2))
    mk("cel_layer_65535", lambda q: upd(q, lambda c: True, layer=65535))
    def lvl(q, i, v):
        ls = [c for c in q["frames"][0]["chunks"] if c["k"] == "layer"] if q["frames"] else []
        if len(ls) <= i:
            return False
        ls[i]["level"] = v
    mk("first_layer_level_1", lambda q: lvl(q, 0, 1))
    mk("first_layer_level_65535", lambda q: lvl(q, 0, 65535))
    mk("second_layer_level_jump", lambda q: lvl(q, 1, 7))
    def lt(q, frm, to, **kw):
        ls = [c for c in q["frames"][0]["chunks"] if c["k"] == "layer" and c.get("ltype", 0) == frm] if q["frames"] else []
        if not ls:
            return False
        ls[0].update(ltype=to, **kw)
    mk("tilemap_layer_missing_tileset", lambda q: lt(q, 2, 2, tileset=["777"]))
    def small_missing(q):
        ids = {str(c.get("id", "0")) for c in q["frames"][0]["chunks"] if c["k"] == "tileset"} if q["frames"] else set()
        free = [str(i) for i in range(0, 4) if str(i) not in ids]
        return lt(q, 2, 2, tileset=[free[0]]) if free else False
    mk("tilemap_layer_small_missing_tileset_id", small_missing)
    mk("image_layer_becomes_tilemap_layer", lambda q: lt(q, 0, 2, tileset=["0"]))
    mk("tilemap_layer_becomes_image_layer", lambda q: lt(q, 2, 0))
    mk("image_layer_becomes_group", lambda q: lt(q, 0, 1))
    mk("no_frames_declared_more", lambda q: q["hdr"].update(nframes=nf + 1))
    mk("frames_declared_fewer", lambda q: q["hdr"].update(nframes=max(0, nf - 1)))
    mk("zero_canvas", lambda q: q["hdr"].update(w=0, h=0))
    def dupcel(q):
        for fr in q["frames"]:
            cs = [c for c in fr["chunks"] if c["k"] == "cel"]
            if cs:
                fr["chunks"].append(copy.deepcopy(cs[0]))
                return
        return False
    mk("duplicate_cel", dupcel)
    mk("dangling_user_data", lambda q: q["frames"][0]["chunks"].insert(0, {"k": "ud", "text": [[1]], "color": []}) if q["frames"] else False)
    def udtags(q):
        if not q["frames"]:
            return False
        ch = q["frames"][0]["chunks"]
        ch.append({"k": "tags", "tags": []})
        ch.append({"k": "ud", "text": [[1]], "color": []})
    mk("user_data_beyond_tags", udtags)
    return out


def stress_cases(tier):
    """Size-capped stress shapes (deep nesting, long sequences)."""
    def nested(n):
        chunks = [{"k": "layer", "flags": 1, "ltype": 1 if i + 1 < n else 0, "level": i, "name": []} for i in range(n)]
        chunks.append({"k": "cel", "layer": n - 1, "ctype": 0, "w": 1, "h": 1, "px": [[1, 2, 3, 255]]})
        return {"hdr": {"w": 1, "h": 1, "depth": 32}, "frames": [{"dur": 1, "chunks": chunks}]}
    def many_frames(n):
        return {"hdr": {"w": 1, "h": 1, "depth": 32}, "frames": [{"dur": i % 65536, "chunks": ([{"k": "layer", "flags": 1, "name": [76]}] if i == 0 else []) +
                                                                 ([{"k": "cel", "layer": 0, "ctype": 0, "w": 1, "h": 1, "px": [[i % 256, 2, 3, 255]]}] if i % 1000 == 0 else [])} for i in range(n)]}
    def many_flat_layers(n):
        return {"hdr": {"w": 1, "h": 1, "depth": 32}, "frames": [{"dur": 1, "chunks": [{"k": "layer", "flags": 1, "name": [65]} for _ in range(n)]}]}
    def link_chain(n, forward_first):
        # one layer; frame 1 holds the only image cel; every later frame links to its predecessor; frame 0 links forward to the last
        frames = []
        for i in range(n):
            if i == 0:
                ch = [{"k": "layer", "flags": 1, "name": [76]}, {"k": "cel", "layer": 0, "ctype": 1, "link": (n - 1) if forward_first else 1}]
            elif i == 1:
                ch = [{"k": "cel", "layer": 0, "ctype": 0, "w": 1, "h": 1, "px": [[1, 2, 3, 255]]}]
            else:
                ch = [{"k": "cel", "layer": 0, "ctype": 1, "link": i - 1}]
            frames.append({"dur": 1, "chunks": ch})
        return {"hdr": {"w": 1, "h": 1, "depth": 32}, "frames": frames}
    for n in ([65535] if tier == "quick" else [3000, 65535]):
        yield {"id": f"stress-linkchain-fwd-{n}", "mode": "light", "meta": {"gen": "g5c", "shape": "chain of linked cels, first link forward", "n": n}, "prog": link_chain(n, True)}
        yield {"id": f"stress-linkchain-{n}", "mode": "light", "meta": {"gen": "g5c", "shape": "chain of linked cels", "n": n}, "prog": link_chain(n, False)}
    sizes = [2000, 60000] if tier == "quick" else [2000, 20000, 60000, 65535]
    for n in sizes:
        yield {"id": f"stress-nested-{n}", "mode": "light", "meta": {"gen": "g5c", "shape": "nested layers", "n": n}, "prog": nested(min(n, 65535))}
    for n in ([3000] if tier == "quick" else [3000, 65535]):
        yield {"id": f"stress-frames-{n}", "mode": "light", "meta": {"gen": "g5c", "shape": "frames", "n": n}, "prog": many_frames(n)}
    for n in ([5000] if tier == "quick" else [5000, 65535]):
        yield {"id": f"stress-layers-{n}", "mode": "light", "meta": {"gen": "g5c", "shape": "flat layers", "n": n}, "prog": many_flat_layers(n)}
    yield from extreme_id_cases()


def extreme_id_cases():
    """Well-formed chunks whose 32-bit index fields sit at the top of their range, with the data to match (a single-field
    corruption cannot produce these: the entry count would no longer agree). Loaded without chunk events (mode light):
    the result must be a sprite or an error value, and whatever loads must be fully usable."""
    M = 4294967295
    def n32(v):
        return v if v < 2 ** 31 else str(v)
    def pal(first, n):
        return {"k": "pal", "total": str(min(M, first + n)), "first": n32(first), "last": n32(first + n - 1),
                "entries": [{"flags": 1 if i == 1 else 0, "rgba": [i % 256, 2, 3, 255], "name": [110] if i == 1 else []} for i in range(n)]}
    layer = {"k": "layer", "flags": 1, "name": [76]}
    def sprite(depth, chunks, px):
        return {"hdr": {"w": 1, "h": 1, "depth": depth, "tidx": 7}, "frames": [{"dur": 1, "chunks": chunks + [layer, {"k": "cel", "layer": 0, "ctype": 0, "w": 1, "h": 1, "px": [px]}]}]}
    shapes = {
        "palette-last-entry-only": sprite(8, [pal(M, 1)], [0]),
        "palette-top-two": sprite(8, [pal(0, 4), pal(M - 1, 2)], [1]),
        "palette-top-four-after-legacy": sprite(8, [{"k": "oldpal04", "packets": [{"skip": 0, "count": 2, "rgb": [[1, 2, 3], [4, 5, 6]]}]}, pal(M - 3, 4)], [1]),
        "palette-across-2^31": sprite(32, [pal(2 ** 31 - 2, 4)], [1, 2, 3, 255]),
        "palette-across-2^16": sprite(8, [pal(0, 2), pal(65534, 4)], [1]),
        "palette-across-2^8-indexed": sprite(8, [pal(254, 4)], [255]),
        "extfiles-top-ids": sprite(32, [{"k": "extfiles", "entries": [{"id": str(M), "etype": 0, "name": [97]}, {"id": str(M - 1), "etype": 1, "name": []}, {"id": "0", "etype": 2, "name": [98]}]}], [1, 2, 3, 255]),
        "slice-top-values": sprite(32, [{"k": "slice", "name": [115], "flags": 3, "keys": [
            {"frame": str(M), "x": str(-2 ** 31), "y": str(2 ** 31 - 1), "w": str(M), "h": str(M), "s9": {"cx": str(-2 ** 31), "cy": "-1", "cw": str(M), "ch": str(M)}, "pivot": {"x": str(2 ** 31 - 1), "y": str(-2 ** 31)}},
            {"frame": "0", "x": "0", "y": "0", "w": "0", "h": "0", "s9": {"cx": "0", "cy": "0", "cw": "0", "ch": "0"}, "pivot": {"x": "0", "y": "0"}}]}], [1, 2, 3, 255]),
    }
    ts = {"k": "tileset", "id": str(M), "flags": 6, "count": 2, "tw": 1, "th": 1, "base": 1, "name": [116], "px": [[0, 0, 0, 0], [9, 8, 7, 255]], "store": "stored"}
    shapes["tileset-top-id"] = {"hdr": {"w": 1, "h": 1, "depth": 32}, "frames": [{"dur": 1, "chunks": [
        ts, {"k": "layer", "flags": 1, "ltype": 2, "name": [84], "tileset": [str(M)]},
        {"k": "cel", "layer": 0, "ctype": 3, "w": 1, "h": 1, "tiles": [1], "bits": 32, "masks": [536870911, "2147483648", 1073741824, 536870912], "store": "stored"}]}]}
    for name, prog in shapes.items():
        yield {"id": f"stress-extreme-{name}", "mode": "light", "meta": {"gen": "g5c", "shape": "32-bit index fields at the top of their range, data consistent"}, "prog": prog}


ALLOC_CAP = str(768 * 1024 * 1024)


def fault_inputs(rep, work, b, tier, seed, mode, nseeds, nhavoc, classes=None, with_corpus=True):
    seeds = work.path("seeds.ndjson")
    gen(b, seeds, "default", seed, nseeds)
    tiles = work.path("seeds2.ndjson")
    gen(b, tiles, "tile", seed + 1, max(2, nseeds // 3))
    with open(seeds, "a") as f:
        f.write(open(tiles).read())
    ff = work.path("fields.ndjson")
    faults(b, seeds, ff, "fields", seed, mode=mode, classes=classes)
    fp = work.path("framepairs.ndjson")
    faults(b, seeds, fp, "framepairs", seed, mode=mode)
    with open(ff, "a") as f:
        f.write(open(fp).read())
    many = work.path("seeds3.ndjson")
    gen(b, many, "manycels", seed + 2, max(16, nseeds))
    kw = work.path("kindwide.ndjson")
    faults(b, many, kw, "kindwide", seed, mode=mode)
    with open(ff, "a") as f:
        f.write(open(kw).read())
    allseeds = work.path("allseeds.ndjson")
    with open(allseeds, "w") as f:
        f.write(open(seeds).read())
        if with_corpus:
            for c in corpus_case_lines(6000):
                f.write(json.dumps(c) + "\n")
    hv = work.path("havoc.ndjson")
    if nhavoc:
        faults(b, allseeds, hv, "havoc", seed, n=nhavoc, mode=mode)
    else:
        open(hv, "w").close()
    return seeds, ff, hv


def c04(rep, work, tier, seed):
    tot = 0
    for prof in ("dev", "relchk"):
        b = build(prof)
        seeds, ff, hv = fault_inputs(rep, work, b, tier, seed, "load", 10 if tier == "quick" else 60, 40000 if tier == "quick" else 1500000)
        env = {"ASEVER_ALLOC_CAP": ALLOC_CAP}
        r1 = batched_stage(rep, work, b, ff, f"fields-{prof}", batch=60000, env=env)
        r2 = batched_stage(rep, work, b, hv, f"havoc-{prof}", batch=100000, env=env)
        if tier != "quick":
            pairs = work.path("pairs.ndjson")
            faults(b, seeds, pairs, "pairs", seed, n=3000, mode="load")
            batched_stage(rep, work, b, pairs, f"pairs-{prof}", batch=100000, env=env)
        st = work.path("stress.ndjson")
        write_cases(st, stress_cases(tier))
        stage_cases(rep, work, b, st, f"stress-{prof}", env=env, per_case_timeout=900)
        if prof == "dev":
            predicted_faults_stage(rep, work, b, tier, seed)
        tot += sum(r1["outcomes"]) + sum(r2["outcomes"])
        if prof == "dev":
            rep.sample(first_cases(ff, 3, 100000)[-1].get("meta"))
            rep.sample(first_cases(hv, 1, 100000)[0].get("meta"))
    rep.cov["distinct_nontrivial"] = tot
    rep.final = dict(rule="structured single-field corruptions (every field of the encoder's field table x boundary values of its type) of random sprites, byte-level "
                          "havoc/splice mutants of sprites and corpus files, size-capped stress shapes (deep nesting, many frames/layers); each loaded in an isolated "
                          "worker on a 2 MiB stack in the unoptimised and the optimised profile with overflow checks and debug assertions on. TLC's protocol "
                          "monitor (Trace_Load) accepts only `ok` and `err:*` as results; thorough adds pairs of field faults",
                     trusted=TRUSTED + ["process isolation and watchdog in bin/vlib.py"],
                     explanation="for arbitrary bytes the specification contributes the monitor and the fault taxonomy, not a proof")


def c05(rep, work, tier, seed):
    b = build("dev")
    env = {"ASEVER_ALLOC_CAP": ALLOC_CAP}
    # (a) one inconsistency per program: the specification classifies them; whatever loads must be fully usable
    hosts = work.path("hosts.ndjson")
    gen(b, hosts, "default", seed, 40 if tier == "quick" else 1500)
    t2 = work.path("hosts2.ndjson")
    gen(b, t2, "tile", seed + 5, 40 if tier == "quick" else 1500)
    inc = work.path("inconsistent.ndjson")
    m = 0
    with open(inc, "w") as f:
        for path in (hosts, t2):
            for line in open(path):
                c = json.loads(line)
                for name, q in inconsistencies(c["prog"]):
                    m += 1
                    f.write(json.dumps({"id": f"{c['id']}|{name}", "mode": "full", "meta": {"gen": "g5-inconsistency", "class": name}, "prog": q}) + "\n")
    r0 = batched_stage(rep, work, b, inc, "inconsistencies", batch=30000, env=env)
    tot = mc_load_stage(rep, work, b, tier, depths=(32, 16, 8))
    huge_stage(rep, work, b, tier, seed)
    predicted_faults_stage(rep, work, b, tier, seed)
    palette_programs_stage(rep, work, b, tier)
    rep.sample(first_cases(inc, 4, 100000)[-1].get("meta"))
    # (b) the C04 campaign in observing mode: every mutant that still loads gets the complete accessor sweep
    seeds, ff, hv = fault_inputs(rep, work, b, tier, seed, "light", 8 if tier == "quick" else 40, 25000 if tier == "quick" else 600000)
    r1 = batched_stage(rep, work, b, ff, "fields-usable", batch=60000, env=env)
    r2 = batched_stage(rep, work, b, hv, "havoc-usable", batch=100000, env=env)
    st = work.path("stress.ndjson")
    write_cases(st, stress_cases(tier))
    stage_cases(rep, work, b, st, "stress-usable", env=env, per_case_timeout=900)
    rep.cov["distinct_nontrivial"] = r0["outcomes"][2] + r0["outcomes"][1]
    rep.cov["inconsistent_programs"] = m
    rep.final = dict(rule="(a) random sprites with ONE inconsistency each from 35 classes (declared sizes vs data, tile ids, tile sizes, link targets, layer indices, levels, "
                          "missing tilesets, cel/layer type mismatches ...): the specification classifies each (must fail / out of contract / fine); "
                          "(b) every field-fault and havoc mutant of C04's campaign that still loads. For whatever loads, the harness calls every public accessor "
                          "with in-range arguments (frame/cel/tilemap/tile/tileset images, tile lookups on a grid incl. far coordinates, parents, visibility, tags, slices, "
                          "user data, Debug) and TLC requires normal returns and documented image dimensions. Rejection at load is not demanded",
                     trusted=TRUSTED)


def c12(rep, work, tier, seed):
    b = build("dev")
    env = {"ASEVER_ALLOC_CAP": ALLOC_CAP}
    seeds, ff, hv = fault_inputs(rep, work, b, tier, seed, "load", 10 if tier == "quick" else 80, 20000 if tier == "quick" else 400000,
                                 classes="size,count,len,dim,index")
    # declared counts that only matter in combination with the file's shape: header fields of sprites with many layers / frames
    shaped = work.path("shaped.ndjson")
    gen(b, shaped, "wide", seed + 61, 2)
    gen(b, work.path("shaped2.ndjson"), "long", seed + 62, 1)
    with open(shaped, "a") as f:
        f.write(open(work.path("shaped2.ndjson")).read())
    hf = work.path("hdrfields.ndjson")
    r = subprocess.run([b, "faults", "--in", shaped, "--kind", "fields", "--seed", str(seed), "--mode", "load", "--only", "hdr.", "--out", hf], capture_output=True, text=True)
    if r.returncode != 0:
        raise ToolError("faults --only failed: " + r.stderr[-300:])
    with open(ff, "a") as f:
        f.write(open(hf).read())
    r1 = batched_stage(rep, work, b, ff, "inflated-fields", batch=60000, env=env)
    r2 = batched_stage(rep, work, b, hv, "havoc", batch=100000, env=env)
    if tier != "quick":
        pairs = work.path("pairs.ndjson")
        faults(b, seeds, pairs, "pairs", seed, n=2000, mode="load")
        batched_stage(rep, work, b, pairs, "pairs", batch=100000, env=env)
    # deflate bombs: highly compressible payloads under declared sizes
    bombs = work.path("bombs.ndjson")
    def bomb_cases():
        for (w, h, n) in [(4096, 4096, 1 << 16), (65535, 65535, 1 << 20), (1, 1, 1 << 20), (65535, 1, 1 << 18)] + ([(65535, 65535, 1 << 24)] if tier != "quick" else []):
            for depth, bpp in ((32, 4), (8, 1)):
                px = [[0] * bpp] * (n // bpp)
                chunks = [{"k": "pal", "first": 0, "last": 0, "entries": [{"flags": 0, "rgba": [0, 0, 0, 255]}]}, {"k": "layer", "flags": 1, "name": [76]},
                          {"k": "cel", "layer": 0, "ctype": 2, "w": w, "h": h, "px": px, "store": "z9"}]
                yield {"id": f"bomb-{w}x{h}-{n}-{depth}", "mode": "load", "meta": {"gen": "g5c", "shape": "deflate bomb", "decoded": n},
                       "prog": {"hdr": {"w": 8, "h": 8, "depth": depth}, "frames": [{"dur": 1, "chunks": chunks}]}}
    write_cases(bombs, bomb_cases())
    stage_cases(rep, work, b, bombs, "bombs", env={"ASEVER_ALLOC_CAP": str(4 << 30)}, shards=4)
    rep.sample(first_cases(ff, 2, 100000)[-1].get("meta"))
    rep.cov["distinct_nontrivial"] = sum(r1["outcomes"])
    rep.assumptions.append("live heap measured by a counting global allocator around AsepriteFile::read (includes the cfg-guarded hook's event strings); "
                           "requests above 768 MiB are refused by the allocator so that a hostile reservation becomes an abort event instead of exhausting the sandbox "
                           "(inputs here are < 24 KiB, for which the bound is below the cap)")
    rep.final = dict(rule="every size/count/length/dimension/index field of random sprites set to each boundary value up to its type maximum (one at a time), havoc mutants, "
                          "deflate bombs; TLC checks peak_live <= 64 MiB + 8192 x input bytes on every load event; allocation-failure aborts reject",
                     trusted=TRUSTED + ["counting allocator in harness/src/main.rs"])


CHECKS.update({"C04": (c04, "fault_enumeration"), "C05": (c05, "fault_enumeration"), "C12": (c12, "fault_enumeration")})


# ------------------------------------------------------------------------------------------
# C18: utility helpers
def c18(rep, work, tier, seed):
    b = build("dev")
    dims = 2 if tier == "quick" else 3
    out, states = mc_run(rep, work, "MC_Util", {"MaxDim": dims, "MaxStrip": 5, "MaxPal": 3 if tier == "quick" else 4}, ["ExtrudeInv", "Export"], workers=4)
    # the palette alphabet, its channel permutations, colours with equal channel sums, and an unrelated colour
    rgb = [[10, 5, 20], [20, 5, 10], [255, 0, 0], [9, 9, 9], [5, 20, 10], [20, 10, 5], [10, 20, 5], [0, 5, 30], [30, 5, 0], [15, 5, 15],
           [0, 1, 0], [0, 0, 1], [255, 255, 255], [0, 255, 254], [1, 0, 0], [128, 128, 128], [5, 10, 20]]
    queries = [c + [a] for c in rgb[:4] for a in (255, 128, 0)] + [c + [255] for c in rgb[4:]] + [[10, 5, 20, 254], [20, 5, 10, 1]]
    cases = work.path("util.ndjson")
    def it():
        for d in map(json.loads, extract_json_prints(out, "PROG")):
            if d["kind"] == "map":
                d["queries"] = queries
                d["image"] = {"w": 3, "h": 2, "px": [queries[0], queries[3], queries[1], queries[9], queries[6], queries[13]]}
            yield d
    n = write_cases(cases, it())
    rep.sample(first_cases(cases, 3)[-1])
    res, _ = driver_stage(rep, work, b, "util", cases, "util", [], spec="Trace_Util", shards=8,
                          kinds={"util_extrude_border", "util_palette_lookup", "util_to_indexed_image"})
    rep.cov["traces_validated_against_impl"] += res["outcomes"][0] + res["outcomes"][2]
    rep.cov["evaluations"] += res["outcomes"][0] + res["outcomes"][1]
    rep.cov["distinct_nontrivial"] = res["outcomes"][0] + res["outcomes"][2]
    if res["outcomes"][0] + res["outcomes"][2] != n:
        rep.error(f"util: {n} cases exported, {res['outcomes']} evaluated")
    rep.final = dict(rule=f"all images with w,h in 1..{dims} (and 1xN, Nx1 up to 5) over 3 colours; all palettes of <= 3/4 entries over 3 colours at first index 0 and 254 "
                          "(duplicates, indices >= 256) x failure index x optional transparent index x 20 query colours (palette colours, their channel permutations, equal-sum colours, absent colours, alphas 255/254/128/1/0) (TLC enumerates; harness calls "
                          "extrude_border / PaletteMapper / to_indexed_image with feature utils; TLC validates; for duplicate colours any matching index is accepted)",
                     trusted=TRUSTED, exhaustive=True)


CHECKS["C18"] = (c18, "model_checking")


# ------------------------------------------------------------------------------------------
# C16: immutable, thread-safe, deterministic value
PROBE = f"{ROOT}/probe"


def build_probe(rep):
    """Compile the probe crate (Send + Sync assertion + thread driver). A compile failure that names Send/Sync while the
    library itself compiles is the type-level part of C16 failing."""
    r = subprocess.run(["cargo", "build", "--offline", "--quiet"], cwd=PROBE, capture_output=True, text=True, env=dict(os.environ, CARGO_NET_OFFLINE="true"))
    if r.returncode == 0:
        return f"{PROBE}/target/debug/asever_threads"
    err = r.stderr
    if re.search(r"cannot be (sent|shared) between threads safely|`(Send|Sync)` is not (implemented|satisfied)|the trait bound `[^`]*: (Send|Sync)`", err):
        lib = subprocess.run(["cargo", "build", "--offline", "--quiet"], cwd="/repo", capture_output=True, text=True)
        if lib.returncode == 0:
            rep.violation("send_sync_probe", "AsepriteFile is not Send + Sync: the probe crate does not compile while the library does",
                          {"property": "C16", "stage": "send_sync_probe", "compiler_output": err[-4000:]})
            return None
    raise ToolError("probe crate failed to build: " + err[-1500:])


def c16(rep, work, tier, seed):
    mc_run(rep, work, "MC_Api", {"T": 3}, ["Immutable", "Functional", "Deterministic"], workers=10)
    threads_bin = build_probe(rep)
    b = build("dev")
    # (a) same bytes loaded twice, observed twice: equal observations; validated against the specification as well
    cases = work.path("twice.ndjson")
    gen(b, cases, "default", seed + 11, 150 if tier == "quick" else 4000, twice=True)
    res = stage_cases(rep, work, b, cases, "load-twice")
    need_ok(rep, res, "load-twice", 0.95)
    # out-of-contract files that still load must load the same way twice as well (e.g. anything resolved by map iteration order)
    hosts = work.path("twice-hosts.ndjson")
    gen(b, hosts, "tile", seed + 15, 60 if tier == "quick" else 400)
    inc = work.path("twice-inconsistent.ndjson")
    with open(inc, "w") as f:
        for line in open(hosts):
            c = json.loads(line)
            for name, q in inconsistencies(c["prog"]):
                f.write(json.dumps({"id": f"{c['id']}|{name}", "mode": "full", "twice": True, "meta": {"gen": "g5-inconsistency", "class": name}, "prog": q}) + "\n")
    stage_cases(rep, work, b, inc, "load-twice-inconsistent")
    # (b) optimised build without overflow checks (wrapping arithmetic) against the unoptimised build with checks:
    #     same cases / same vectors through both binaries, merged pairwise, TLC demands equality
    rel = build("release")
    cases2 = work.path("rel.ndjson")
    gen(b, cases2, "render", seed + 12, 200 if tier == "quick" else 5000)
    hugec = work.path("relhuge.ndjson")
    gen(b, hugec, "huge", seed + 14, 150 if tier == "quick" else 3000)
    bigm = work.path("relbigmap.ndjson")
    gen(b, bigm, "bigmap", seed + 16, 12 if tier == "quick" else 80)
    bigc = work.path("relbigcel.ndjson")
    gen(b, bigc, "bigcel", seed + 17, 2 if tier == "quick" else 12)
    with open(cases2, "a") as f:
        f.write(open(hugec).read())
        f.write(open(bigm).read())
        f.write(open(bigc).read())
    pair_trace = work.path("pairs.ndjson")
    npairs = 0
    with open(pair_trace, "w") as po:
        obs = {}
        for tag, binp in (("dev", b), ("release", rel)):
            outs, n, crashes = run_workers(binp, cases2, work.path(f"pair-{tag}"), shards=8)
            for o in outs:
                for line in open(o):
                    if line.startswith('{"case"') and ('"ev":"obs"' in line[:200] or '"ev":"end"' in line[:200]):
                        e = json.loads(line)
                        obs.setdefault(e["case"], {}).setdefault(tag, {})[e["ev"]] = e.get("obs", e.get("result"))
                os.remove(o)
        for cid, d in obs.items():
            for what in ("end", "obs"):
                if what in d.get("dev", {}) or what in d.get("release", {}):
                    po.write(json.dumps({"ev": "pair", "case": cid, "what": "load result" if what == "end" else "observation",
                                         "a": d.get("dev", {}).get(what, "missing"), "b": d.get("release", {}).get(what, "missing")}) + "\n")
                    npairs += 1
        # blend vectors: same seed => same vectors in both profiles
        for stratum, n in (("random", 20000 if tier == "quick" else 600000), ("lattice", 20000 if tier == "quick" else 400000)):
            files = {}
            for tag, binp in (("dev", b), ("release", rel)):
                prefix = work.path(f"blp-{stratum}-{tag}")
                r = subprocess.run([binp, "blend", "--stratum", stratum, "--seed", str(seed + 13), "--n", str(n), "--out", prefix, "--shards", "1"], capture_output=True, text=True)
                if r.returncode != 0:
                    raise ToolError("blend driver failed: " + r.stderr[-300:])
                files[tag] = prefix + ".0"
            with open(files["dev"]) as fa, open(files["release"]) as fb:
                for la, lb in zip(fa, fb):
                    ea, eb = json.loads(la), json.loads(lb)
                    po.write(json.dumps({"ev": "pair", "case": "blend", "what": f"blend {stratum} m={ea['m']} lop={ea['lop']} cop={ea['cop']}",
                                         "a": {"B": ea["B"], "S": ea["S"], "R": ea["R"], "panic": ea["panic"]},
                                         "b": {"B": eb["B"], "S": eb["S"], "R": eb["R"], "panic": eb["panic"]}}) + "\n")
                    npairs += 1
            for fpath in files.values():
                os.remove(fpath)
    pshards, _ = split_lines(pair_trace, 8, work.path("pairs.sh"))
    resP = validate_traces("Trace_Load", pshards, jvms=8)
    rep.add_model(resP["generated"], resP["distinct"])
    for e in resP["errors"]:
        rep.error(f"profile pairs: {e}")
    for rej in resP["rejects"]:
        rep.violation(sig_of_reject(rej), re.sub(r"\s+", " ", rej)[:800], {"property": "C16", "stage": "profile-pairs", "tlc": rej, "seed": seed})
    rep.stage("profile-pairs", pairs=npairs, evaluated=resP["outcomes"][3], rejects=len(resP["rejects"]))
    log(f"[C16] profile pairs: {npairs} pairs, evaluated {resP['outcomes'][3]}, rejects {len(resP['rejects'])}")
    if resP["outcomes"][3] != npairs:
        rep.error(f"profile pairs: {npairs} written, {resP['outcomes'][3]} evaluated")
    rep.cov["traces_validated_against_impl"] += npairs
    res2 = {"outcomes": [npairs, 0, 0, 0]}
    # (c) threads
    if threads_bin:
        enc = work.path("enc.ndjson")
        r = subprocess.run([b, "encode", "--in", cases, "--out", enc], capture_output=True, text=True)
        if r.returncode != 0:
            raise ToolError("encode failed: " + r.stderr[-300:])
        with open(enc, "a") as f:
            for c in corpus_case_lines(20000):
                f.write(json.dumps({"id": c["id"], "hex": open(c["file"], "rb").read().hex()}) + "\n")
        paths, nfiles = split_lines(enc, 4, work.path("thr.in"))
        outs = []
        for pth in paths:
            o = pth.replace(".in.", ".ev.")
            with open(pth) as fi, open(o, "w") as fo:
                rr = subprocess.run([threads_bin, "16", "2" if tier == "quick" else "6", str(seed)], stdin=fi, stdout=fo, stderr=subprocess.PIPE, text=True)
            if rr.returncode != 0:
                rep.violation("threads_driver_crashed", rr.stderr[-500:], {"property": "C16", "stage": "threads", "stderr": rr.stderr[-2000:]})
            outs.append(o)
        resT = validate_traces("Trace_Api", outs, jvms=4)
        rep.add_model(resT["generated"], resT["distinct"])
        for e in resT["errors"]:
            rep.error(f"threads: {e}")
        for rej in resT["rejects"]:
            rep.violation(sig_of_reject(rej), re.sub(r"\s+", " ", rej)[:800], {"property": "C16", "stage": "threads", "tlc": rej, "seed": seed})
        rep.stage("threads", files=resT["outcomes"][0], concurrent_calls=resT["outcomes"][1], threads=16, rejects=len(resT["rejects"]))
        log(f"[C16] threads: {resT['outcomes'][0]} files, {resT['outcomes'][1]} concurrent calls, rejects {len(resT['rejects'])}")
        rep.cov["traces_validated_against_impl"] += resT["outcomes"][0]
        rep.cov["concurrent_calls"] = resT["outcomes"][1]
    rep.sample({"threads": 16, "calls": ["Obs (complete accessor sweep)", "Frame(f).image", "Cel(f,l) image/top_left/is_empty/user_data", "Layer(l) facts", "Debug"],
                "schedule": "per-thread pseudo-random permutation with repetitions of the call list"})
    rep.cov["distinct_nontrivial"] = res["outcomes"][0] + res2["outcomes"][0]
    rep.assumptions.append("Send + Sync is a type-level fact decided by compiling /verif/probe (not by the TLA+ model)")
    rep.final = dict(rule="AseApi threads machine (3 threads x <= 2 calls, all interleavings: results are a function of the call); implementation: every file loaded twice and "
                          "observed twice (equal, and equal to the specification's observation); release profile (no overflow checks) validated against the same "
                          "specification incl. blend vectors; 16 OS threads sharing one &AsepriteFile, each running a permutation with repetitions of the accessor "
                          "calls, every result compared by TLC with the sequential baseline; Send + Sync compile probe",
                     trusted=TRUSTED + ["/verif/probe thread driver"])


CHECKS["C16"] = (c16, "model_checking")
