"""Per-property checks. Each function fills a Report; verdicts come from TLC output only."""
import json, os, re, subprocess, time
from vlib import *

TRUSTED = ["TLC 1.8 (tla2tools.jar) and CommunityModules", "harness encoder/observer in /verif/harness (mechanical, no expected values)",
           "rustc/cargo, flate2 (zlib streams)"]


def sig_of_reject(rej):
    """Stable signature of a TLC REJECT line: verdict kind + failing fields / result class (no ids, no numbers)."""
    m = re.match(r'<<"REJECT", <<"[^"]*", "([a-z_]+)"(.*)', rej, re.S)
    if not m:
        return "reject"
    kind, rest = m.group(1), m.group(2)
    if kind in ("observation", "usable"):
        s = re.search(r"\{([^}]*)\}", rest)
        fields = s.group(1).replace('"', "").replace(" ", "") if s else ""
        pm = re.findall(r'msg \|-> "([^"]*)"', rest)
        extra = ""
        if pm:
            extra = ":" + re.sub(r"\d+", "N", pm[0].split(" @ ")[-1])
        return f"{kind}:{fields}{extra}"
    if kind == "load_result":
        r = re.findall(r'"([^"]*)"', rest)
        res = r[0] if r else "?"
        msg = r[1] if len(r) > 1 else ""
        site = msg.split(" @ ")[-1] if " @ " in msg else ""
        site = re.sub(r":\d+$", "", site)
        what = re.sub(r"\d+", "N", msg.split(" @ ")[0])[:60]
        return f"load_result:{res}:{site}:{what}"
    return kind


def stage_cases(rep, work, binpath, cases, name, spec="Trace_Load", shards=8, jvms=12, env=None, xmx="3g", per_case_timeout=60):
    """cases.ndjson -> harness workers -> NDJSON traces -> TLC trace validation."""
    t0 = time.time()
    outs, n, crashes = run_workers(binpath, cases, work.path(name), shards=shards, extra_env=env, per_case_timeout=per_case_timeout)
    t1 = time.time()
    res = validate_traces(spec, outs, jvms=jvms, xmx=xmx)
    rep.add_model(res["generated"], res["distinct"])
    rep.cov["traces_validated_against_impl"] += n
    rep.cov["evaluations"] += n
    for e in res["errors"]:
        rep.error(f"stage {name}: {e}")
    for rej in res["rejects"]:
        cid = reject_case_id(rej)
        c = find_case(cases, cid) or {"id": cid}
        rep.violation(sig_of_reject(rej), re.sub(r"\s+", " ", rej)[:1200], {"property": rep.pid, "stage": name, "case": c, "tlc": rej, "spec": spec})
    rep.stage(name, cases=n, harness_s=round(t1 - t0, 1), tlc_s=round(res["wall"], 1), tlc_states=res["distinct"],
              outcomes=dict(zip(["ok", "err", "either", "unstructured"], res["outcomes"])), rejects=len(res["rejects"]), crashes=len(crashes))
    log(f"[{rep.pid}] stage {name}: {n} cases, harness {t1-t0:.1f}s, tlc {res['wall']:.1f}s, outcomes {res['outcomes']}, rejects {len(res['rejects'])}")
    for o in outs:
        try:
            os.remove(o)
        except OSError:
            pass
    return res


def gen(binpath, out, profile, seed, n, variants=0, twice=False):
    cmd = [binpath, "gen", "--profile", profile, "--seed", str(seed), "--n", str(n), "--out", out]
    if variants:
        cmd += ["--variants", str(variants)]
    if twice:
        cmd.append("--twice")
    r = subprocess.run(cmd, capture_output=True, text=True)
    if r.returncode != 0:
        raise ToolError("gen failed: " + r.stderr[-500:])


def first_cases(path, k=2, maxlen=1500):
    out = []
    with open(path) as f:
        for line in f:
            if len(out) >= k:
                break
            out.append(json.loads(line) if len(line) < maxlen else {"id": json.loads(line).get("id"), "truncated": line[:maxlen]})
    return out


def need_ok(rep, res, name, frac=0.5):
    """Vacuity control: a stage that is supposed to exercise well-formed sprites must see them."""
    ok, err, either, un = res["outcomes"]
    tot = ok + err + either + un
    if tot and ok < frac * tot:
        rep.error(f"stage {name}: only {ok}/{tot} cases were well-formed by the specification (generator/spec drift)")


# ------------------------------------------------------------------------------------------
def c01(rep, work, tier, seed):
    b = build("dev")
    n = 400 if tier == "quick" else 6000
    cases = work.path("g3.ndjson")
    gen(b, cases, "struct", seed, n)
    res = stage_cases(rep, work, b, cases, "g3-struct")
    need_ok(rep, res, "g3-struct", 0.95)
    for c in first_cases(cases, 1, 4000):
        rep.sample(c)
    rep.final = dict(rule="random/boundary well-formed sprite programs (G3 'struct'); a case is non-trivial when the specification "
                          "classifies it well-formed (outcome ok) and its full observation is compared field by field by TLC",
                     trusted=TRUSTED)
    rep.cov["distinct_nontrivial"] = res["outcomes"][0]


CHECKS = {
    "C01": (c01, "model_checking"),
}


def replay(pid, path, work, rep):
    doc = json.load(open(path))
    b = build("dev")
    cases = work.path("replay.ndjson")
    with open(cases, "w") as f:
        f.write(json.dumps(doc["case"]) + "\n")
    res = stage_cases(rep, work, b, cases, "replay", spec=doc.get("spec", "Trace_Load"), shards=1, jvms=1)
    rep.final = dict(rule="replay of one recorded case", trusted=TRUSTED)
    rep.cov["distinct_nontrivial"] = 1
    return rep.finish(**rep.final)
