//! Drivers: worker (case -> events), encode/fields helpers, blend vectors, scripted readers,
//! threads, util, decode.
use crate::observe::{self, Limits};
use crate::prog::{self, Program};
use crate::{arg, flag, hex_decode, hex_encode, read_lines, Out, LIVE, MAXREQ, PANIC_INFO, PEAK, REFUSED};
use asefile::{AsepriteFile, AsepriteParseError};
use serde_json::{json, Value};
use std::panic::{catch_unwind, AssertUnwindSafe};
use std::sync::atomic::Ordering;

pub fn classify(e: &AsepriteParseError) -> String {
    match e {
        AsepriteParseError::InvalidInput(_) => "err:InvalidInput".into(),
        AsepriteParseError::UnsupportedFeature(_) => "err:UnsupportedFeature".into(),
        AsepriteParseError::InternalError(_) => "err:InternalError".into(),
        AsepriteParseError::IoError(e) => format!("err:IoError:{:?}", e.kind()),
    }
}

pub struct Loaded {
    pub result: String,
    pub msg: String,
    pub ase: Option<AsepriteFile>,
    pub hooks: Vec<Value>,
    pub peak: usize,
    pub maxreq: usize,
    pub refused: usize,
}

/// Load `bytes` from an in-memory slice, with hooks recording and allocation accounting.
pub fn load_bytes(bytes: &[u8]) -> Loaded {
    asefile::verif::start();
    let base = LIVE.load(Ordering::Relaxed);
    PEAK.store(base, Ordering::Relaxed);
    MAXREQ.store(0, Ordering::Relaxed);
    REFUSED.store(0, Ordering::Relaxed);
    PANIC_INFO.with(|p| p.borrow_mut().take());
    let r = catch_unwind(AssertUnwindSafe(|| AsepriteFile::read(bytes)));
    let peak = PEAK.load(Ordering::Relaxed).saturating_sub(base);
    let maxreq = MAXREQ.load(Ordering::Relaxed);
    let refused = REFUSED.load(Ordering::Relaxed);
    let hooks: Vec<Value> = asefile::verif::take().iter().filter_map(|s| serde_json::from_str(s).ok()).collect();
    let (result, msg, ase) = match r {
        Ok(Ok(a)) => ("ok".to_string(), String::new(), Some(a)),
        Ok(Err(e)) => (classify(&e), format!("{}", e).chars().take(200).collect(), None),
        Err(_) => ("panic".to_string(), PANIC_INFO.with(|p| p.borrow_mut().take()).unwrap_or_default(), None),
    };
    Loaded { result, msg, ase, hooks, peak, maxreq, refused }
}

pub fn case_bytes(case: &Value) -> (Vec<u8>, Option<Program>, Option<prog::Encoded>) {
    let (mut bytes, prog, enc) = if let (Some(f), Some(p)) = (case.get("file").and_then(|h| h.as_str()), case.get("prog")) {
        let mut p: Program = serde_json::from_value(p.clone()).unwrap_or_else(|e| {
            eprintln!("bad program in case {}: {}", case["id"], e);
            std::process::exit(2)
        });
        p.normalize();
        let bytes = std::fs::read(f).unwrap_or_else(|e| {
            eprintln!("cannot read {}: {}", f, e);
            std::process::exit(2)
        });
        (bytes, Some(p), None)
    } else if let Some(p) = case.get("prog") {
        let mut p: Program = match serde_json::from_value(p.clone()) {
            Ok(p) => p,
            Err(e) => {
                eprintln!("bad program in case {}: {}", case["id"], e);
                std::process::exit(2);
            }
        };
        p.normalize();
        let enc = prog::encode(&p);
        (enc.bytes.clone(), Some(p), Some(enc))
    } else if let Some(h) = case.get("hex").and_then(|h| h.as_str()) {
        (hex_decode(h), None, None)
    } else if let Some(f) = case.get("file").and_then(|h| h.as_str()) {
        (std::fs::read(f).unwrap_or_else(|e| {
            eprintln!("cannot read {}: {}", f, e);
            std::process::exit(2)
        }), None, None)
    } else {
        eprintln!("case without prog/hex/file: {}", case);
        std::process::exit(2);
    };
    // field patches by name (needs the encoder's field table) or by offset
    if let Some(ps) = case.get("patch").and_then(|p| p.as_array()) {
        for p in ps {
            let data: Vec<u8> = p["bytes"].as_array().map(|a| a.iter().map(|b| b.as_u64().unwrap_or(0) as u8).collect()).unwrap_or_default();
            let off = if let Some(name) = p.get("field").and_then(|f| f.as_str()) {
                enc.as_ref().and_then(|e| e.fields.iter().find(|f| f.name == name)).map(|f| f.off)
            } else {
                p["off"].as_u64().map(|o| o as usize)
            };
            if let Some(off) = off {
                for (i, b) in data.iter().enumerate() {
                    if off + i < bytes.len() {
                        bytes[off + i] = *b;
                    }
                }
            }
        }
    }
    if let Some(c) = case.get("cut").and_then(|c| c.as_u64()) {
        bytes.truncate(c as usize);
    }
    (bytes, prog, enc)
}

fn hook_chunks(hooks: &[Value]) -> Vec<Vec<Value>> {
    // group hook chunk events by frame event
    let mut out: Vec<Vec<Value>> = vec![];
    for h in hooks {
        match h["ev"].as_str() {
            Some("frame") => out.push(vec![]),
            Some("chunk") => {
                if let Some(l) = out.last_mut() {
                    l.push(h.clone())
                }
            }
            _ => {}
        }
    }
    out
}

thread_local! {
    /// the previous case's sprite, kept alive across the next load: (case id, sprite, its observation, full limits?)
    static PREV: std::cell::RefCell<Option<(Value, AsepriteFile, Value, bool)>> = const { std::cell::RefCell::new(None) };
}

pub fn run_case(case: &Value, out: &mut Out) {
    let id = case["id"].clone();
    let mode = case.get("mode").and_then(|m| m.as_str()).unwrap_or("full").to_string();
    let meta = case.get("meta").cloned().unwrap_or(json!({}));
    let (bytes, prog, enc) = case_bytes(case);
    // mode "bytes": the trace carries the (possibly patched) bytes; TLC derives the program from them (AseParse!Decode)
    let bytes_field = if mode == "bytes" { json!(bytes) } else { json!([]) };
    out.ev(&json!({"ev": "begin", "case": id, "mode": mode, "meta": meta, "len": bytes.len(), "xbytes": bytes_field,
        "eof": enc.as_ref().map_or(bytes.len(), |e| e.end_of_frames),
        "hdr": prog.as_ref().map_or(json!([]), |p| json!([p.hdr])),
        "trailing": prog.as_ref().map_or(0, |p| p.trailing.len())}));
    out.flush();
    if case.get("selftest_abort").and_then(|t| t.as_bool()).unwrap_or(false) {
        // bin/selftest: simulate the library aborting the process in the middle of a case
        std::process::abort();
    }
    let ld = load_bytes(&bytes);
    if mode == "full" {
        if let Some(p) = &prog {
            let hc = hook_chunks(&ld.hooks);
            for (fi, f) in p.frames.iter().enumerate() {
                let hframe: Vec<&Value> = ld.hooks.iter().filter(|h| h["ev"] == "frame" && h["f"] == json!(fi)).collect();
                out.ev(&json!({"ev": "frame", "f": fi, "dur": f.dur, "magic": f.magic, "n": f.chunks.len(), "count_field": f.count_field,
                    "hook": hframe.first().map_or(json!([]), |h| json!([h]))}));
                for (ci, c) in f.chunks.iter().enumerate() {
                    let hook = hc.get(fi).and_then(|v| v.get(ci)).map_or(json!([]), |h| json!([h]));
                    out.ev(&json!({"ev": "chunk", "f": fi, "i": ci, "c": c, "pad": f.pads.get(ci).copied().unwrap_or(0), "hook": hook}));
                }
            }
        }
    }
    if mode == "forest" {
        // very many layers: instead of one event per chunk, the nesting levels and visible flags as encoded, and what the
        // loaded sprite reports for a sample of layers (around the 16-bit boundary and at both ends)
        if let Some(p) = &prog {
            let mut levels: Vec<u16> = vec![];
            let mut visible: Vec<bool> = vec![];
            for f in &p.frames {
                for c in &f.chunks {
                    if let prog::Chunk::Layer(l) = c {
                        levels.push(l.level);
                        visible.push(l.flags & 1 == 1);
                    }
                }
            }
            let mut samples: Vec<Value> = vec![];
            let mut panics: Vec<String> = vec![];
            if let Some(ase) = &ld.ase {
                let nl = ase.num_layers();
                let mut ids: Vec<u32> = (0..nl.min(48)).collect();
                for c in [255u32, 256, 4096, 32767, 32768, 65535, 65536, 65537, 65538, 65539, 65540, 65600, 70000, 131072] {
                    ids.extend(c.saturating_sub(3)..(c + 4).min(nl));
                }
                ids.extend(nl.saturating_sub(48)..nl);
                ids.retain(|i| *i < nl);
                ids.sort();
                ids.dedup();
                for i in ids {
                    let r = std::panic::catch_unwind(std::panic::AssertUnwindSafe(|| {
                        let l = ase.layer(i);
                        json!({"i": i, "id": l.id(), "parent": l.parent().map_or(json!([]), |p| json!([p.id()])), "visible": l.is_visible()})
                    }));
                    match r {
                        Ok(v) => samples.push(v),
                        Err(_) => panics.push(format!("layer({}) {}", i, crate::PANIC_INFO.with(|p| p.borrow_mut().take()).unwrap_or_default())),
                    }
                }
                out.ev(&json!({"ev": "forest", "case": id, "nl": nl, "levels": levels, "vis": visible, "samples": samples, "panics": panics}));
            }
        }
    }
    let nhook_chunks = ld.hooks.iter().filter(|h| h["ev"] == "chunk").count();
    out.ev(&json!({"ev": "end", "case": id, "result": ld.result, "msg": ld.msg, "len": bytes.len(),
        "peak_kib": (ld.peak + 1023) / 1024, "maxreq_kib": (ld.maxreq + 1023) / 1024, "refused_kib": (ld.refused + 1023) / 1024,
        "hook_chunks": nhook_chunks}));
    // a sprite is a value: loading ANOTHER file must not change what an earlier, still living sprite reports
    PREV.with(|pv| {
        if let Some((pid, pase, pobs, pfull)) = pv.borrow().as_ref() {
            let lim = Limits { pixels: *pfull, max_canvas: if *pfull { 1 << 16 } else { 1 << 20 }, max_cels: if *pfull { 64 } else { 6 } };
            let again = observe::observe(pase, &lim);
            out.ev(&json!({"ev": "twice", "case": pid, "equal": &again == pobs, "after": id, "what": "earlier sprite re-observed after another load"}));
        }
        *pv.borrow_mut() = None;
    });
    let mut keep: Option<(Value, bool)> = None;
    if let Some(ase) = &ld.ase {
        if mode != "load" {
            let fullobs = mode == "full" || mode == "bytes";
            let lim = Limits { pixels: fullobs, max_canvas: if fullobs { 1 << 16 } else { 1 << 20 }, max_cels: if fullobs { 64 } else { 6 } };
            // every other case (by id) is first put through an adversarial call order: what it reports must not depend on it
            let perturbed = case.get("perturb").and_then(|t| t.as_bool()).unwrap_or_else(|| id.as_str().map_or(false, |s| s.bytes().fold(0u32, |a, b| a.wrapping_mul(31).wrapping_add(b as u32)) % 2 == 1));
            if perturbed {
                observe::perturb(ase, &lim);
            }
            let obs = observe::observe(ase, &lim);
            if case.get("twice").and_then(|t| t.as_bool()).unwrap_or(false) {
                // determinism: further loads of the same bytes (each gets fresh hash seeds), second observation of the first
                let mut same = observe::observe(ase, &lim) == obs;
                for _ in 0..4 {
                    let ld2 = load_bytes(&bytes);
                    same = same && ld2.ase.as_ref().map_or(false, |a2| observe::observe(a2, &lim) == obs);
                }
                out.ev(&json!({"ev": "twice", "case": id, "equal": same}));
            }
            if bytes.len() <= 16 * 1024 {
                keep = Some((obs.clone(), fullobs));
            }
            out.ev(&json!({"ev": "obs", "case": id, "obs": obs}));
        }
    }
    out.ev(&json!({"ev": "done", "case": id}));
    if let (Some((obs, full)), Some(ase)) = (keep, ld.ase) {
        PREV.with(|pv| *pv.borrow_mut() = Some((id.clone(), ase, obs, full)));
    }
    out.flush();
}

/// worker --in cases.ndjson --out events.ndjson [--skip n]
pub fn worker(args: &[String]) {
    let input = arg(args, "--in").unwrap_or("-");
    let mut out = Out::new(arg(args, "--out").unwrap_or("-"));
    let skip: usize = arg(args, "--skip").and_then(|s| s.parse().ok()).unwrap_or(0);
    for (i, line) in read_lines(input).enumerate() {
        if i < skip || line.trim().is_empty() {
            continue;
        }
        let case: Value = match serde_json::from_str(&line) {
            Ok(v) => v,
            Err(e) => {
                eprintln!("bad case line {}: {}", i, e);
                std::process::exit(2);
            }
        };
        run_case(&case, &mut out);
    }
    out.flush();
}

/// encode --in cases.ndjson : prints {"id","hex","eof"} per case
pub fn encode_cmd(args: &[String]) {
    let input = arg(args, "--in").unwrap_or("-");
    let mut out = Out::new(arg(args, "--out").unwrap_or("-"));
    for line in read_lines(input) {
        if line.trim().is_empty() {
            continue;
        }
        let case: Value = serde_json::from_str(&line).unwrap();
        let (bytes, _, enc) = case_bytes(&case);
        out.ev(&json!({"id": case["id"], "hex": hex_encode(&bytes), "eof": enc.map_or(bytes.len(), |e| e.end_of_frames)}));
    }
    out.flush();
}

/// encbytes --in cases.ndjson --out events : program (all zlib data as stored blocks) + the bytes the encoder wrote,
/// for the byte-level cross-check against AseBytes!Encode (Trace_Bytes)
pub fn encbytes_cmd(args: &[String]) {
    use crate::prog::Chunk;
    let input = arg(args, "--in").unwrap_or("-");
    let mut out = Out::new(arg(args, "--out").unwrap_or("-"));
    for line in read_lines(input) {
        if line.trim().is_empty() {
            continue;
        }
        let case: Value = serde_json::from_str(&line).unwrap();
        let Some(pv) = case.get("prog") else { continue };
        let mut p: Program = serde_json::from_value(pv.clone()).unwrap();
        for f in &mut p.frames {
            for c in &mut f.chunks {
                match c {
                    Chunk::Cel(c) => c.store = "stored".into(),
                    Chunk::Tileset(t) => t.store = "stored".into(),
                    _ => {}
                }
            }
        }
        p.normalize();
        let enc = prog::encode(&p);
        out.ev(&json!({"ev": "enc", "case": case["id"], "prog": p, "bytes": enc.bytes, "eof": enc.end_of_frames}));
    }
    out.flush();
}

/// fields --in cases.ndjson : prints the encoder's field table per case
pub fn fields_cmd(args: &[String]) {
    let input = arg(args, "--in").unwrap_or("-");
    let mut out = Out::new(arg(args, "--out").unwrap_or("-"));
    for line in read_lines(input) {
        if line.trim().is_empty() {
            continue;
        }
        let case: Value = serde_json::from_str(&line).unwrap();
        let (bytes, _, enc) = case_bytes(&case);
        out.ev(&json!({"id": case["id"], "len": bytes.len(), "fields": enc.map(|e| e.fields).unwrap_or_default()}));
    }
    out.flush();
}

// ---------------------------------------------------------------------------------------
// Blend vectors (C03 / C17): two-layer sprites rendered through Frame::image.

type Px = [u8; 4];

fn render_vectors(mode: u16, lop: u8, cop: u8, bs: &[(Px, Px)]) -> Result<Vec<Px>, String> {
    use crate::prog::*;
    let n = bs.len() as u16;
    let back = CelC { layer: 0, ctype: 0, w: n, h: 1, px: bs.iter().map(|p| p.0.to_vec()).collect(), opacity: 255, ..Default::default() };
    let src = CelC { layer: 1, ctype: 0, w: n, h: 1, px: bs.iter().map(|p| p.1.to_vec()).collect(), opacity: cop, ..Default::default() };
    let l0 = LayerC { flags: 1, opacity: 255, blend: 0, ..Default::default() };
    let l1 = LayerC { flags: 1, opacity: lop, blend: mode, ..Default::default() };
    let mut p = Program {
        hdr: Hdr { w: n, h: 1, depth: 32, ..Default::default() },
        frames: vec![FrameP { dur: 1, chunks: vec![Chunk::Layer(l0), Chunk::Layer(l1), Chunk::Cel(back), Chunk::Cel(src)], ..Default::default() }],
        trailing: vec![],
    };
    p.normalize();
    let bytes = encode(&p).bytes;
    PANIC_INFO.with(|p| p.borrow_mut().take());
    let r = catch_unwind(AssertUnwindSafe(|| {
        let ase = AsepriteFile::read(&bytes[..]).map_err(|e| format!("load: {}", e))?;
        let img = ase.frame(0).image();
        Ok::<Vec<Px>, String>(img.pixels().map(|p| p.0).collect())
    }));
    match r {
        Ok(v) => v,
        Err(_) => Err(format!("panic: {}", PANIC_INFO.with(|p| p.borrow_mut().take()).unwrap_or_default())),
    }
}

struct BlendOut {
    outs: Vec<Out>,
    next: usize,
    pub events: usize,
    pub vectors: usize,
}
impl BlendOut {
    fn emit(&mut self, mode: u16, lop: u8, cop: u8, bs: &[(Px, Px)]) {
        for chunk in bs.chunks(128) {
            let r = render_vectors(mode, lop, cop, chunk);
            let rn = if mode == 0 { r.clone() } else { render_vectors(0, lop, cop, chunk) };
            let b: Vec<Px> = chunk.iter().map(|p| p.0).collect();
            let s: Vec<Px> = chunk.iter().map(|p| p.1).collect();
            let ev = match (r, rn) {
                (Ok(r), Ok(rn)) => json!({"ev": "blend", "m": mode, "lop": lop, "cop": cop, "B": b, "S": s, "R": r, "RN": rn, "panic": ""}),
                (Err(e), _) | (_, Err(e)) => json!({"ev": "blend", "m": mode, "lop": lop, "cop": cop, "B": b, "S": s, "R": [], "RN": [], "panic": e}),
            };
            let k = self.next % self.outs.len();
            self.outs[k].ev(&ev);
            self.next += 1;
            self.events += 1;
            self.vectors += chunk.len();
        }
    }
}

const LATTICE: [u8; 11] = [0, 1, 2, 63, 64, 127, 128, 129, 191, 254, 255];
const ALPHA_GRID: [u8; 6] = [1, 64, 128, 192, 254, 255];
const INT_MODES: [u16; 14] = [1, 2, 3, 4, 5, 6, 7, 8, 9, 10, 11, 16, 17, 18];

/// blend --stratum chan|chanalpha|opacity|lattice|random|hsl|laws --seed S --n N --out prefix --shards K [--modes a,b]
pub fn blend_cmd(args: &[String]) {
    use rand::rngs::StdRng;
    use rand::seq::SliceRandom;
    use rand::{Rng, SeedableRng};
    let stratum = arg(args, "--stratum").unwrap_or("chan");
    let seed: u64 = arg(args, "--seed").and_then(|s| s.parse().ok()).unwrap_or(1);
    let n: usize = arg(args, "--n").and_then(|s| s.parse().ok()).unwrap_or(10000);
    let shards: usize = arg(args, "--shards").and_then(|s| s.parse().ok()).unwrap_or(1);
    let prefix = arg(args, "--out").unwrap_or("blend");
    let modes: Vec<u16> = arg(args, "--modes").map(|m| m.split(',').filter_map(|x| x.parse().ok()).collect()).unwrap_or_else(|| (0..19).collect());
    let mut o = BlendOut { outs: (0..shards).map(|i| Out::new(&format!("{}.{}", prefix, i))).collect(), next: 0, events: 0, vectors: 0 };
    let mut r = StdRng::seed_from_u64(seed ^ 0xb1e4d);
    match stratum {
        // complete channel tables: all 2^16 (b, s) per mode at Ba = Sa = op = 255, three pairs per pixel
        "chan" => {
            for &m in modes.iter().filter(|m| INT_MODES.contains(m)) {
                let pairs: Vec<(u8, u8)> = (0..=255u8).flat_map(|b| (0..=255u8).map(move |s| (b, s))).collect();
                let mut v = vec![];
                for t in pairs.chunks(3) {
                    let g = |i: usize| t.get(i).copied().unwrap_or(t[0]);
                    v.push(([g(0).0, g(1).0, g(2).0, 255], [g(0).1, g(1).1, g(2).1, 255]));
                }
                o.emit(m, 255, 255, &v);
            }
        }
        // all 2^16 (b, s) x 6x6 alpha grid, op from --n selects how many (lop,cop) settings (1..3)
        "chanalpha" => {
            let ops: Vec<(u8, u8)> = [(255u8, 255u8), (255, 128), (1, 255)].iter().copied().take(n.clamp(1, 3)).collect();
            for &m in modes.iter().filter(|m| INT_MODES.contains(m)) {
                for &(lop, cop) in &ops {
                    for &ba in &ALPHA_GRID {
                        for &sa in &ALPHA_GRID {
                            let pairs: Vec<(u8, u8)> = (0..=255u8).flat_map(|b| (0..=255u8).map(move |s| (b, s))).collect();
                            let mut v = vec![];
                            for t in pairs.chunks(3) {
                                let g = |i: usize| t.get(i).copied().unwrap_or(t[0]);
                                v.push(([g(0).0, g(1).0, g(2).0, ba], [g(0).1, g(1).1, g(2).1, sa]));
                            }
                            o.emit(m, lop, cop, &v);
                        }
                    }
                }
            }
        }
        // all 2^16 (layer, cel) opacity pairs on fixed colours
        "opacity" => {
            let fixed: [(Px, Px); 4] = [([10, 200, 30, 255], [250, 3, 128, 255]), ([10, 200, 30, 128], [250, 3, 128, 200]), ([0, 0, 0, 0], [9, 8, 7, 255]), ([255, 255, 255, 1], [0, 0, 0, 254])];
            for &m in &modes {
                for lop in 0..=255u8 {
                    for cop in 0..=255u8 {
                        o.emit(m, lop, cop, &fixed);
                    }
                }
            }
        }
        // boundary lattice of whole pixels, random points of LATTICE^8 x opacities from the lattice
        "lattice" | "random" | "hsl" | "laws" => {
            let per = (n / modes.len().max(1)).max(1);
            for &m in &modes {
                let mut done = 0;
                while done < per {
                    let (lop, cop): (u8, u8) = match stratum {
                        "random" => (r.gen(), r.gen()),
                        "laws" => *[(0u8, 255u8), (255, 0), (255, 255), (1, 1), (0, 0)].choose(&mut r).unwrap(),
                        _ => (*LATTICE.choose(&mut r).unwrap(), if r.gen_bool(0.5) { 255 } else { *LATTICE.choose(&mut r).unwrap() }),
                    };
                    let k = 128.min(per - done);
                    let v: Vec<(Px, Px)> = (0..k)
                        .map(|_| {
                            let mut px = |r: &mut StdRng| -> Px {
                                match stratum {
                                    "random" => [r.gen(), r.gen(), r.gen(), r.gen()],
                                    "hsl" => {
                                        // greys, primaries, ties (r = g < b etc.) and threshold values
                                        let t: [u8; 8] = [0, 1, 64, 127, 128, 191, 254, 255];
                                        let a = *t.choose(r).unwrap();
                                        let b = *t.choose(r).unwrap();
                                        let c = match r.gen_range(0..6) {
                                            0 => [a, a, a],
                                            1 => [a, a, b],
                                            2 => [a, b, a],
                                            3 => [b, a, a],
                                            4 => [a, b, *t.choose(r).unwrap()],
                                            _ => [r.gen(), r.gen(), r.gen()],
                                        };
                                        [c[0], c[1], c[2], *[255u8, 255, 128, 1, 0, 254].choose(r).unwrap()]
                                    }
                                    "laws" => [r.gen(), r.gen(), r.gen(), *[0u8, 0, 255, 255, 1, 128].choose(r).unwrap()],
                                    _ => [*LATTICE.choose(r).unwrap(), *LATTICE.choose(r).unwrap(), *LATTICE.choose(r).unwrap(), *LATTICE.choose(r).unwrap()],
                                }
                            };
                            (px(&mut r), px(&mut r))
                        })
                        .collect();
                    o.emit(m, lop, cop, &v);
                    done += k;
                }
            }
        }
        _ => {
            eprintln!("unknown stratum {}", stratum);
            std::process::exit(2);
        }
    }
    for out in &mut o.outs {
        out.flush();
    }
    println!("{}", json!({"events": o.events, "vectors": o.vectors}));
}
/// End of the last frame, from the bytes alone (header frame count, then each frame's size field).
pub fn end_of_frames(b: &[u8]) -> usize {
    if b.len() < 128 {
        return b.len();
    }
    let n = u16::from_le_bytes([b[6], b[7]]) as usize;
    let mut pos = 128usize;
    for _ in 0..n {
        if pos + 4 > b.len() {
            return b.len();
        }
        let sz = u32::from_le_bytes([b[pos], b[pos + 1], b[pos + 2], b[pos + 3]]) as usize;
        pos = pos.saturating_add(sz);
    }
    pos.min(b.len())
}

/// cuts --in cases.ndjson --out events.ndjson
/// For each case: load every strict prefix 0..eof-1 and the prefix of length eof and the full file.
/// One event per file: results[k] = result class of the prefix of length k (k = 0..eof).
pub fn cuts_cmd(args: &[String]) {
    let input = arg(args, "--in").unwrap_or("-");
    let mut out = Out::new(arg(args, "--out").unwrap_or("-"));
    let max_eof: usize = arg(args, "--max").and_then(|s| s.parse().ok()).unwrap_or(1 << 20);
    let tmpdir = arg(args, "--tmp").unwrap_or("/var/tmp").to_string();
    let sparse_above: usize = arg(args, "--sparse-above").and_then(|s| s.parse().ok()).unwrap_or(100_000);
    for line in read_lines(input) {
        if line.trim().is_empty() {
            continue;
        }
        let case: Value = serde_json::from_str(&line).unwrap();
        let (bytes, _, enc) = case_bytes(&case);
        let eof = enc.as_ref().map_or_else(|| end_of_frames(&bytes), |e| e.end_of_frames);
        if eof > max_eof {
            continue;
        }
        let full = load_bytes(&bytes);
        if full.result != "ok" && !full.result.starts_with("err:") {
            // a crash of the full load is reported (C04 territory, but it must not pass silently here)
            out.ev(&json!({"ev": "skip", "case": case["id"], "why": full.result, "crash": true}));
            continue;
        }
        if full.result != "ok" {
            // not a valid file (C13 quantifies over strict prefixes of VALID files)
            out.ev(&json!({"ev": "skip", "case": case["id"], "why": full.result, "crash": false}));
            continue;
        }
        if eof > sparse_above {
            // large files: every cut near the start, near the end, around every chunk start and around every multiple of
            // 64 KiB (the loader reads bodies in bounded steps), and a stride in between
            let mut at: Vec<usize> = (0..4096.min(eof)).collect();
            at.extend(eof.saturating_sub(4096)..eof);
            at.extend((0..eof).step_by(257));
            let mut marks: Vec<usize> = (1..=(eof / 65536)).map(|k| k * 65536).collect();
            if let Some(e) = &enc {
                marks.extend(e.fields.iter().filter(|f| f.name.ends_with(".size") || f.name.ends_with(".nbytes")).map(|f| f.off));
                // ... and relative to each chunk start (bodies are read from there)
                let starts: Vec<usize> = e.fields.iter().filter(|f| f.name.ends_with(".size")).map(|f| f.off).collect();
                for s0 in starts {
                    for k in 1..=((eof - s0.min(eof)) / 65536) {
                        marks.push(s0 + 6 + k * 65536);
                        marks.push(s0 + k * 65536);
                    }
                }
            }
            for m in marks {
                at.extend(m.saturating_sub(8)..(m + 9).min(eof));
            }
            at.retain(|k| *k < eof);
            at.sort();
            at.dedup();
            let results: Vec<String> = at.iter().map(|k| load_bytes(&bytes[..*k]).result).collect();
            let at_eof = load_bytes(&bytes[..eof]).result;
            out.ev(&json!({"ev": "scuts", "case": case["id"], "len": bytes.len(), "eof": eof, "full": full.result, "at": at, "results": results, "at_eof": at_eof,
                "bytes": if bytes.len() <= 600_000 { json!(bytes) } else { json!([]) }}));
            out.flush();
            continue;
        }
        let full_obs = full.ase.as_ref().map(|a| observe::observe(a, &Limits { pixels: false, max_canvas: 1 << 16, max_cels: 4 }));
        let mut results: Vec<String> = Vec::with_capacity(eof + 1);
        let mut same_as_full: Vec<bool> = Vec::with_capacity(eof + 1);
        for k in 0..=eof {
            let ld = load_bytes(&bytes[..k]);
            let same = match (&ld.ase, &full_obs) {
                (Some(a), Some(fo)) => &observe::observe(a, &Limits { pixels: false, max_canvas: 1 << 16, max_cels: 4 }) == fo,
                _ => false,
            };
            results.push(ld.result);
            same_as_full.push(same);
        }
        out.ev(&json!({"ev": "cuts", "case": case["id"], "len": bytes.len(), "eof": eof, "full": full.result, "results": results, "same_as_full": same_as_full,
            "bytes": if bytes.len() <= 200_000 { json!(bytes) } else { json!([]) }}));
        // the by-path entry point (its own reading code): a sample of the same prefixes written to disk and loaded with read_file
        {
            let mut at: Vec<usize> = (0..eof).step_by((eof / 40).max(1)).collect();
            at.extend(eof.saturating_sub(24)..eof);
            at.extend(128..160.min(eof));
            if let Some(e) = &enc {
                for f in e.fields.iter().filter(|f| f.name.ends_with(".size")).rev().take(3) {
                    at.extend(f.off.saturating_sub(2)..(f.off + 24).min(eof));
                }
            }
            at.retain(|k| *k < eof);
            at.sort();
            at.dedup();
            let load_path = |n: usize| -> String {
                let path = format!("{}/asever-cut-{}.aseprite", tmpdir, std::process::id());
                std::fs::write(&path, &bytes[..n]).unwrap();
                let r = catch_unwind(AssertUnwindSafe(|| AsepriteFile::read_file(std::path::Path::new(&path))));
                let _ = std::fs::remove_file(&path);
                match r {
                    Ok(Ok(_)) => "ok".to_string(),
                    Ok(Err(e)) => classify(&e),
                    Err(_) => "panic".into(),
                }
            };
            let results: Vec<String> = at.iter().map(|k| load_path(*k)).collect();
            let at_eof = load_path(eof);
            out.ev(&json!({"ev": "scuts", "case": format!("{}|read_file", case["id"].as_str().unwrap_or("?")), "len": bytes.len(), "eof": eof, "full": full.result,
                "at": at, "results": results, "at_eof": at_eof, "bytes": []}));
        }
        out.flush();
    }
}

// ---------------------------------------------------------------------------------------
// C14: scripted readers. Only `read` is implemented, so std's read_exact loop is in play.

#[derive(Debug)]
struct Marker(u64);
impl std::fmt::Display for Marker {
    fn fmt(&self, f: &mut std::fmt::Formatter<'_>) -> std::fmt::Result {
        write!(f, "injected error {}", self.0)
    }
}
impl std::error::Error for Marker {}

#[derive(Clone, Copy)]
enum Op {
    Full,
    One,
    Half,
    Int,
}

struct Scripted<'a> {
    data: &'a [u8],
    pos: usize,
    script: Vec<Op>,
    i: usize,
    err_at: Option<(usize, std::io::ErrorKind, i64)>,
    log: Vec<(usize, i64)>,
    marker: u64,
}
impl<'a> std::io::Read for Scripted<'a> {
    fn read(&mut self, buf: &mut [u8]) -> std::io::Result<usize> {
        if buf.is_empty() {
            return Ok(0);
        }
        let len = buf.len();
        if let Some((off, kind, code)) = self.err_at {
            if self.pos == off {
                self.log.push((len, code));
                return Err(std::io::Error::new(kind, Marker(self.marker)));
            }
        }
        let op = self.script[self.i % self.script.len()];
        self.i += 1;
        let mut room = self.data.len() - self.pos;
        if let Some((off, _, _)) = self.err_at {
            if off > self.pos {
                room = room.min(off - self.pos);
            }
        }
        if let Op::Int = op {
            self.log.push((len, -1));
            return Err(std::io::Error::new(std::io::ErrorKind::Interrupted, "interrupted"));
        }
        let want = match op {
            Op::One => 1,
            Op::Half => (len + 1) / 2,
            _ => len,
        };
        let n = want.min(len).min(room);
        buf[..n].copy_from_slice(&self.data[self.pos..self.pos + n]);
        self.pos += n;
        self.log.push((len, n as i64));
        Ok(n)
    }
}

fn light_obs(a: &AsepriteFile) -> Value {
    observe::observe(a, &Limits { pixels: false, max_canvas: 1 << 16, max_cels: 4 })
}

fn run_scripted(bytes: &[u8], script: Vec<Op>, err_at: Option<(usize, std::io::ErrorKind, i64)>, marker: u64) -> (String, Vec<(usize, i64)>, Option<AsepriteFile>, bool) {
    let mut rd = Scripted { data: bytes, pos: 0, script, i: 0, err_at, log: vec![], marker };
    PANIC_INFO.with(|p| p.borrow_mut().take());
    let r = catch_unwind(AssertUnwindSafe(|| AsepriteFile::read(&mut rd)));
    let log = std::mem::take(&mut rd.log);
    match r {
        Ok(Ok(a)) => ("ok".into(), log, Some(a), false),
        Ok(Err(e)) => {
            // the returned error must carry the injected error as its source
            let mut source_ok = false;
            if let AsepriteParseError::IoError(io) = &e {
                let direct = io.get_ref().and_then(|r| r.downcast_ref::<Marker>()).map_or(false, |m| m.0 == marker);
                let via_source = std::error::Error::source(&e)
                    .and_then(|s| s.downcast_ref::<std::io::Error>())
                    .and_then(|io| io.get_ref())
                    .and_then(|r| r.downcast_ref::<Marker>())
                    .map_or(false, |m| m.0 == marker);
                source_ok = direct && via_source;
            }
            (classify(&e), log, None, source_ok)
        }
        Err(_) => ("panic".into(), log, None, false),
    }
}

fn script_from(desc: &str) -> Vec<Op> {
    let v: Vec<Op> = desc
        .chars()
        .filter_map(|c| match c {
            'F' => Some(Op::Full),
            '1' => Some(Op::One),
            'H' => Some(Op::Half),
            'I' => Some(Op::Int),
            _ => None,
        })
        .collect();
    if v.iter().all(|o| matches!(o, Op::Int)) {
        vec![Op::Full]
    } else {
        v
    }
}

/// readers --in cases.ndjson --scripts F,1,H,I1,... --kinds 2,3 --out events [--every k]
pub fn readers_cmd(args: &[String]) {
    use std::io::ErrorKind as K;
    let input = arg(args, "--in").unwrap_or("-");
    let mut out = Out::new(arg(args, "--out").unwrap_or("-"));
    let scripts: Vec<String> = arg(args, "--scripts").unwrap_or("F,1,H,IF,I1,1H,FI1H").split(',').map(|s| s.to_string()).collect();
    let kinds: Vec<i64> = arg(args, "--kinds").unwrap_or("-2,-3").split(',').filter_map(|s| s.parse().ok()).collect();
    let every: usize = arg(args, "--every").and_then(|s| s.parse().ok()).unwrap_or(1);
    let rotate = flag(args, "--rotate");
    let maxoff: usize = arg(args, "--maxoff").and_then(|s| s.parse().ok()).unwrap_or(300);
    let tmpdir = arg(args, "--tmp").unwrap_or("/var/tmp").to_string();
    let kind_of = |c: i64| match c {
        -2 => K::Other,
        -3 => K::BrokenPipe,
        -4 => K::PermissionDenied,
        -5 => K::TimedOut,
        -6 => K::ConnectionReset,
        -7 => K::UnexpectedEof,
        _ => K::InvalidData,
    };
    let mut marker = 1000u64;
    for line in read_lines(input) {
        if line.trim().is_empty() {
            continue;
        }
        let case: Value = serde_json::from_str(&line).unwrap();
        let (bytes, _, enc) = case_bytes(&case);
        let eof = enc.as_ref().map_or_else(|| end_of_frames(&bytes), |e| e.end_of_frames);
        let (r0, log0, a0, _) = run_scripted(&bytes, vec![Op::Full], None, 0);
        let obs0 = a0.as_ref().map(light_obs);
        if r0.starts_with("err:") {
            // not a loadable file (C14 quantifies over well-formed files)
            out.ev(&json!({"ev": "skip", "case": case["id"], "why": r0, "crash": false}));
            continue;
        }
        out.ev(&json!({"ev": "base", "case": case["id"], "len": bytes.len(), "eof": eof, "result": r0, "calls": log0,
            "bytes": if bytes.len() <= 200_000 { json!(bytes) } else { json!([]) }}));
        if obs0.is_none() {
            continue;
        }
        // scripts without hard error
        for sc in &scripts {
            let (r, log, a, _) = run_scripted(&bytes, script_from(sc), None, 0);
            let eq = a.as_ref().map(light_obs) == obs0;
            out.ev(&json!({"ev": "run", "script": sc, "len": bytes.len(), "result": r, "calls": log, "obs_equal": eq, "source_ok": false}));
        }
        // a hard error of each kind at every (every-th) byte offset, including offsets past the needed bytes
        let mut si = 0usize;
        // every = 0: automatic stride so that a file contributes at most ~maxoff offsets
        let stride = if every == 0 { (bytes.len() / maxoff).max(1) } else { every };
        for (oi, off) in (0..=bytes.len()).step_by(stride).enumerate() {
            // --rotate: one kind per offset (kinds rotate over the offsets) instead of every kind at every offset
            let ks: Vec<i64> = if rotate { vec![kinds[oi % kinds.len()]] } else { kinds.clone() };
            for &kc in &ks {
                marker += 1;
                let sc = &scripts[si % scripts.len()];
                si += 1;
                let (r, log, a, source_ok) = run_scripted(&bytes, script_from(sc), Some((off, kind_of(kc), kc)), marker);
                let eq = a.as_ref().map(light_obs) == obs0;
                out.ev(&json!({"ev": "run", "script": format!("{}+err{}@{}", sc, kc, off), "len": bytes.len(), "result": r, "calls": log, "obs_equal": eq, "source_ok": source_ok}));
            }
        }
        // other reader types
        {
            let rd = Scripted { data: &bytes, pos: 0, script: script_from("1HFI"), i: 0, err_at: None, log: vec![], marker: 0 };
            let r = catch_unwind(AssertUnwindSafe(|| AsepriteFile::read(std::io::BufReader::with_capacity(7, rd))));
            let (res, eq) = match r {
                Ok(Ok(a)) => ("ok".to_string(), Some(light_obs(&a)) == obs0),
                Ok(Err(e)) => (classify(&e), false),
                Err(_) => ("panic".into(), false),
            };
            out.ev(&json!({"ev": "variant", "kind": "bufreader(7)+script", "result": res, "obs_equal": eq}));
            let r = catch_unwind(AssertUnwindSafe(|| AsepriteFile::read(std::io::Cursor::new(bytes.clone()))));
            let (res, eq) = match r {
                Ok(Ok(a)) => ("ok".to_string(), Some(light_obs(&a)) == obs0),
                Ok(Err(e)) => (classify(&e), false),
                Err(_) => ("panic".into(), false),
            };
            out.ev(&json!({"ev": "variant", "kind": "cursor", "result": res, "obs_equal": eq}));
            let path = format!("{}/asever-{}-{}.aseprite", tmpdir, std::process::id(), marker);
            std::fs::write(&path, &bytes).unwrap();
            let r = catch_unwind(AssertUnwindSafe(|| AsepriteFile::read_file(std::path::Path::new(&path))));
            let _ = std::fs::remove_file(&path);
            let (res, eq) = match r {
                Ok(Ok(a)) => ("ok".to_string(), Some(light_obs(&a)) == obs0),
                Ok(Err(e)) => (classify(&e), false),
                Err(_) => ("panic".into(), false),
            };
            out.ev(&json!({"ev": "variant", "kind": "read_file", "result": res, "obs_equal": eq}));
        }
        out.flush();
    }
}
pub fn threads_cmd(_args: &[String]) {
    unimplemented!()
}
/// util --in cases.ndjson --out events.ndjson  (C18, feature `utils`)
pub fn util_cmd(args: &[String]) {
    use asefile::util::{extrude_border, to_indexed_image, MappingOptions, PaletteMapper};
    use image::RgbaImage;
    let input = arg(args, "--in").unwrap_or("-");
    let mut out = Out::new(arg(args, "--out").unwrap_or("-"));
    let px_of = |v: &Value| -> Vec<u8> { v.as_array().unwrap().iter().flat_map(|p| p.as_array().unwrap().iter().map(|b| b.as_u64().unwrap() as u8)).collect() };
    for line in read_lines(input) {
        if line.trim().is_empty() {
            continue;
        }
        let c: Value = serde_json::from_str(&line).unwrap();
        PANIC_INFO.with(|p| p.borrow_mut().take());
        match c["kind"].as_str() {
            Some("extrude") => {
                let (w, h) = (c["w"].as_u64().unwrap() as u32, c["h"].as_u64().unwrap() as u32);
                let img = RgbaImage::from_raw(w, h, px_of(&c["px"])).unwrap();
                let r = catch_unwind(AssertUnwindSafe(|| extrude_border(img)));
                let (o, panic) = match r {
                    Ok(o) => (json!({"w": o.width(), "h": o.height(), "px": o.pixels().map(|p| p.0).collect::<Vec<_>>()}), String::new()),
                    Err(_) => (json!({"w": 0, "h": 0, "px": []}), PANIC_INFO.with(|p| p.borrow_mut().take()).unwrap_or_default()),
                };
                out.ev(&json!({"ev": "extrude", "w": w, "h": h, "px": c["px"], "out": o, "panic": panic}));
            }
            Some("map") => {
                use crate::prog::*;
                let first = c["first"].as_u64().unwrap() as u32;
                let entries: Vec<PalE> = c["entries"].as_array().unwrap().iter().map(|e| {
                    let v: Vec<u8> = e.as_array().unwrap().iter().map(|b| b.as_u64().unwrap() as u8).collect();
                    PalE { flags: 0, rgba: [v[0], v[1], v[2], 255], name: vec![] }
                }).collect();
                let n = entries.len() as u32;
                let mut p = Program {
                    hdr: Hdr { w: 1, h: 1, depth: 32, ..Default::default() },
                    frames: vec![FrameP { dur: 1, chunks: vec![Chunk::Pal(PalC { total: U32S(first + n), first: U32N(first), last: U32N(first + n - 1), entries })], ..Default::default() }],
                    trailing: vec![],
                };
                p.normalize();
                let bytes = encode(&p).bytes;
                let failure = c["failure"].as_u64().unwrap() as u8;
                let transparent = c["transparent"].as_array().unwrap().first().map(|t| t.as_u64().unwrap() as u8);
                let queries: Vec<Vec<u8>> = c["queries"].as_array().unwrap().iter().map(|q| q.as_array().unwrap().iter().map(|b| b.as_u64().unwrap() as u8).collect()).collect();
                let (iw, ih) = (c["image"]["w"].as_u64().unwrap() as u32, c["image"]["h"].as_u64().unwrap() as u32);
                let ipx = px_of(&c["image"]["px"]);
                let r = catch_unwind(AssertUnwindSafe(|| {
                    let ase = AsepriteFile::read(&bytes[..]).expect("palette host must load");
                    let mapper = PaletteMapper::new(ase.palette().expect("palette"), MappingOptions { failure, transparent });
                    let lookups: Vec<u8> = queries.iter().map(|q| mapper.lookup(q[0], q[1], q[2], q[3])).collect();
                    let img = RgbaImage::from_raw(iw, ih, ipx.clone()).unwrap();
                    let ((dw, dh), data) = to_indexed_image(img, &mapper);
                    (lookups, dw, dh, data)
                }));
                let mut ev = json!({"ev": "map", "first": first, "entries": c["entries"], "failure": failure, "transparent": c["transparent"],
                    "queries": c["queries"], "image": c["image"], "lookups": [], "indexed": {"dims": [0, 0], "data": []}, "panic": ""});
                match r {
                    Ok((lookups, dw, dh, data)) => {
                        ev["lookups"] = json!(lookups);
                        ev["indexed"] = json!({"dims": [dw, dh], "data": data});
                    }
                    Err(_) => ev["panic"] = json!(PANIC_INFO.with(|p| p.borrow_mut().take()).unwrap_or_default()),
                }
                out.ev(&ev);
            }
            _ => {}
        }
    }
    out.flush();
}
// ---------------------------------------------------------------------------------------
// Independent decoder: bytes -> Program (the inverse of prog::encode, written against the file
// format document, not against the library). Used for the corpus (G4): the decoded program is what
// TLC derives the expected observation from, the library loads the original bytes.

struct Rd<'a> {
    b: &'a [u8],
    p: usize,
}
impl<'a> Rd<'a> {
    fn take(&mut self, n: usize) -> Option<&'a [u8]> {
        if self.p + n > self.b.len() {
            return None;
        }
        let s = &self.b[self.p..self.p + n];
        self.p += n;
        Some(s)
    }
    fn u8(&mut self) -> Option<u8> {
        self.take(1).map(|s| s[0])
    }
    fn u16(&mut self) -> Option<u16> {
        self.take(2).map(|s| u16::from_le_bytes([s[0], s[1]]))
    }
    fn i16(&mut self) -> Option<i16> {
        self.u16().map(|v| v as i16)
    }
    fn u32(&mut self) -> Option<u32> {
        self.take(4).map(|s| u32::from_le_bytes([s[0], s[1], s[2], s[3]]))
    }
    fn i32(&mut self) -> Option<i32> {
        self.u32().map(|v| v as i32)
    }
    fn string(&mut self) -> Option<Vec<u8>> {
        let n = self.u16()? as usize;
        self.take(n).map(|s| s.to_vec())
    }
    fn rest(&mut self) -> &'a [u8] {
        let s = &self.b[self.p..];
        self.p = self.b.len();
        s
    }
}

fn inflate(data: &[u8]) -> Option<Vec<u8>> {
    use std::io::Read;
    let mut d = flate2::read::ZlibDecoder::new(data);
    let mut out = vec![];
    d.read_to_end(&mut out).ok()?;
    Some(out)
}

fn decode_chunk(code: u16, body: &[u8], bpp: usize) -> Option<crate::prog::Chunk> {
    use crate::prog::*;
    let mut r = Rd { b: body, p: 0 };
    Some(match code {
        0x2004 => {
            let flags = r.u16()?;
            let ltype = r.u16()?;
            let level = r.u16()?;
            let dw = r.u16()?;
            let dh = r.u16()?;
            let blend = r.u16()?;
            let opacity = r.u8()?;
            r.take(3)?;
            let name = r.string()?;
            let tileset = if ltype == 2 { vec![U32S(r.u32()?)] } else { vec![] };
            Chunk::Layer(LayerC { flags, ltype, level, blend, opacity, name, tileset, dw, dh, rsv: 0 })
        }
        0x2005 => {
            let layer = r.u16()?;
            let x = r.i16()?;
            let y = r.i16()?;
            let opacity = r.u8()?;
            let ctype = r.u16()?;
            r.take(7)?;
            let mut c = CelC { layer, x, y, opacity, ctype, ..Default::default() };
            c.bits = 32;
            c.masks = [U32N(0x1fff_ffff), U32N(0x8000_0000), U32N(0x4000_0000), U32N(0x2000_0000)];
            match ctype {
                0 => {
                    c.w = r.u16()?;
                    c.h = r.u16()?;
                    c.px = r.rest().chunks_exact(bpp).map(|p| p.to_vec()).collect();
                }
                1 => c.link = r.u16()?,
                2 => {
                    c.w = r.u16()?;
                    c.h = r.u16()?;
                    c.px = inflate(r.rest())?.chunks_exact(bpp).map(|p| p.to_vec()).collect();
                }
                3 => {
                    c.w = r.u16()?;
                    c.h = r.u16()?;
                    c.bits = r.u16()?;
                    for i in 0..4 {
                        c.masks[i] = U32N(r.u32()?);
                    }
                    r.take(10)?;
                    c.tiles = inflate(r.rest())?.chunks_exact(4).map(|t| U32N(u32::from_le_bytes([t[0], t[1], t[2], t[3]]))).collect();
                }
                _ => return None,
            }
            Chunk::Cel(c)
        }
        0x2018 => {
            let n = r.u16()?;
            r.take(8)?;
            let mut tags = vec![];
            for _ in 0..n {
                let from = r.u16()?;
                let to = r.u16()?;
                let dir = r.u8()?;
                let repeat = r.u16()?;
                r.take(6)?;
                let color = U32S(r.u32()?);
                let name = r.string()?;
                tags.push(TagP { from, to, dir, repeat, color, name });
            }
            Chunk::Tags(TagsC { tags })
        }
        0x2022 => {
            let n = r.u32()?;
            let flags = r.u32()?;
            let rsv = r.u32()?;
            let name = r.string()?;
            let mut keys = vec![];
            for _ in 0..n {
                let mut k = KeyP { frame: U32S(r.u32()?), x: I32S(r.i32()?), y: I32S(r.i32()?), w: U32S(r.u32()?), h: U32S(r.u32()?), ..Default::default() };
                if flags & 1 != 0 {
                    k.s9 = S9P { cx: I32S(r.i32()?), cy: I32S(r.i32()?), cw: U32S(r.u32()?), ch: U32S(r.u32()?) };
                }
                if flags & 2 != 0 {
                    k.pivot = PivP { x: I32S(r.i32()?), y: I32S(r.i32()?) };
                }
                keys.push(k);
            }
            Chunk::Slice(SliceC { name, flags: U32N(flags), keys, rsv: U32S(rsv) })
        }
        0x2020 => {
            let flags = r.u32()?;
            let text = if flags & 1 != 0 { vec![r.string()?] } else { vec![] };
            let color = if flags & 2 != 0 {
                let c = r.take(4)?;
                vec![[c[0], c[1], c[2], c[3]]]
            } else {
                vec![]
            };
            Chunk::Ud(UdC { text, color })
        }
        0x2019 => {
            let total = r.u32()?;
            let first = r.u32()?;
            let last = r.u32()?;
            r.take(8)?;
            let mut entries = vec![];
            for _ in 0..(last.checked_sub(first)?.checked_add(1)?) {
                let flags = r.u16()?;
                let c = r.take(4)?;
                let name = if flags & 1 == 1 { r.string()? } else { vec![] };
                entries.push(PalE { flags, rgba: [c[0], c[1], c[2], c[3]], name });
            }
            Chunk::Pal(PalC { total: U32S(total), first: U32N(first), last: U32N(last), entries })
        }
        0x0004 | 0x0011 => {
            let n = r.u16()?;
            let mut packets = vec![];
            for _ in 0..n {
                let skip = r.u8()?;
                let count = r.u8()?;
                let k = if count == 0 { 256 } else { count as usize };
                let mut rgb = vec![];
                for _ in 0..k {
                    let c = r.take(3)?;
                    rgb.push([c[0], c[1], c[2]]);
                }
                packets.push(PacketP { skip, count, rgb });
            }
            if code == 4 {
                Chunk::OldPal04(OldPalC { packets })
            } else {
                Chunk::OldPal11(OldPalC { packets })
            }
        }
        0x2007 => {
            let ptype = r.u16()?;
            let flags = r.u16()?;
            let gamma = U32S(r.u32()?);
            r.take(8)?;
            let icc = if ptype == 2 {
                let n = r.u32()? as usize;
                r.take(n)?.to_vec()
            } else {
                vec![]
            };
            Chunk::Profile(ProfileC { ptype, flags, gamma, icc })
        }
        0x2008 => {
            let n = r.u32()?;
            r.take(8)?;
            let mut entries = vec![];
            for _ in 0..n {
                let id = U32S(r.u32()?);
                let etype = r.u8()?;
                r.take(7)?;
                entries.push(ExtE { id, etype, name: r.string()? });
            }
            Chunk::ExtFiles(ExtFilesC { entries })
        }
        0x2023 => {
            let id = U32S(r.u32()?);
            let flags = r.u32()?;
            let count = r.u32()?;
            let tw = r.u16()?;
            let th = r.u16()?;
            let base = r.i16()?;
            r.take(14)?;
            let name = r.string()?;
            let ext = if flags & 1 != 0 { ExtRef { file: U32S(r.u32()?), ts: U32S(r.u32()?) } } else { ExtRef::default() };
            let px = if flags & 2 != 0 {
                let clen = r.u32()? as usize;
                let z = r.take(clen.min(r.b.len() - r.p))?;
                inflate(z)?.chunks_exact(bpp).map(|p| p.to_vec()).collect()
            } else {
                vec![]
            };
            Chunk::Tileset(TilesetC { id, flags, count: U32N(count), tw, th, base, name, ext, px, store: "z6".into() })
        }
        0x2006 => Chunk::CelExtra(IgnC { body: body.to_vec() }),
        0x2016 => Chunk::Mask(IgnC { body: body.to_vec() }),
        0x2017 => Chunk::Path(IgnC { body: body.to_vec() }),
        _ => Chunk::Raw(RawC { code, body: body.to_vec() }),
    })
}

pub fn decode_bytes(bytes: &[u8]) -> Option<Program> {
    use crate::prog::*;
    let mut r = Rd { b: bytes, p: 0 };
    let fsize = r.u32()?;
    let magic = r.u16()?;
    let nframes = r.u16()?;
    let w = r.u16()?;
    let h = r.u16()?;
    let depth = r.u16()?;
    let flags = r.u32()?;
    let speed = r.u16()?;
    r.take(8)?;
    let tidx = r.u8()?;
    r.take(3)?;
    let ncolors = r.u16()?;
    let pixw = r.u8()?;
    let pixh = r.u8()?;
    let gx = r.i16()?;
    let gy = r.i16()?;
    let gw = r.u16()?;
    let gh = r.u16()?;
    r.take(84)?;
    let bpp = match depth {
        8 => 1,
        16 => 2,
        _ => 4,
    };
    let mut frames = vec![];
    for _ in 0..nframes {
        let start = r.p;
        let nbytes = r.u32()? as usize;
        let fmagic = r.u16()?;
        let old = r.u16()?;
        let dur = r.u16()?;
        let rsv = r.u16()?;
        let new = r.u32()?;
        let n = if new == 0 { old as u32 } else { new };
        let mut chunks = vec![];
        for _ in 0..n {
            let cstart = r.p;
            let size = r.u32()? as usize;
            let code = r.u16()?;
            let body = r.take(size.checked_sub(6)?)?;
            let _ = cstart;
            chunks.push(decode_chunk(code, body, bpp)?);
        }
        r.p = start + nbytes;
        let count_field = if new == 0 { "old" } else if old == 0xFFFF { "old_ffff" } else if old == 0 && n > 0 { "new" } else { "both" };
        frames.push(FrameP { dur, chunks, count_field: count_field.into(), pads: vec![], magic: fmagic, rsv });
    }
    let trailing = if r.p <= bytes.len() { bytes[r.p..].to_vec() } else { vec![] };
    let mut p = Program {
        hdr: Hdr { nframes: Some(nframes), w, h, depth, tidx, pixw, pixh, magic, flags: U32S(flags), speed, ncolors, grid: [gx, gy], gridsz: [gw, gh], fsize: Some(U32S(fsize)), rsv: 0 },
        frames,
        trailing,
    };
    p.normalize();
    Some(p)
}

/// decode --in files.ndjson ({"id","file"}) --out cases.ndjson ({"id","file","prog","mode":"full"})
pub fn decode_cmd(args: &[String]) {
    let input = arg(args, "--in").unwrap_or("-");
    let mut out = Out::new(arg(args, "--out").unwrap_or("-"));
    for line in read_lines(input) {
        if line.trim().is_empty() {
            continue;
        }
        let c: Value = serde_json::from_str(&line).unwrap();
        let (bytes, _, _) = case_bytes(&c);
        match decode_bytes(&bytes) {
            Some(p) => {
                let mut cc = c.clone();
                cc["prog"] = serde_json::to_value(&p).unwrap();
                cc["mode"] = json!("full");
                cc["meta"] = json!({"gen": "g4-corpus", "decoded": true});
                out.ev(&cc);
            }
            None => eprintln!("decode: cannot decode {}", c["id"]),
        }
    }
    out.flush();
}
#[allow(dead_code)]
fn unused() {
    let _ = flag(&[], "");
}
