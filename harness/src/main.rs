//! asever — mechanical driver for the model-based verification of asefile.
//! It encodes programs, loads them with the real library, projects the public API to JSON and
//! writes NDJSON events. Every verdict is taken by TLC on the trace specs in /verif/spec.
mod observe;
mod prog;
mod gen;
mod drivers;

use serde_json::{json, Value};
use std::alloc::{GlobalAlloc, Layout, System};
use std::cell::RefCell;
use std::io::{BufRead, Write};
use std::sync::atomic::{AtomicUsize, Ordering};

// ---------------------------------------------------------------------------------------
// Counting allocator (C12). Live/peak bytes and the largest single request, process wide;
// workers are single threaded while loading.
pub struct Counting;
pub static LIVE: AtomicUsize = AtomicUsize::new(0);
pub static PEAK: AtomicUsize = AtomicUsize::new(0);
pub static MAXREQ: AtomicUsize = AtomicUsize::new(0);
pub static CAP: AtomicUsize = AtomicUsize::new(usize::MAX);
pub static REFUSED: AtomicUsize = AtomicUsize::new(0);

extern "C" {
    fn write(fd: i32, buf: *const u8, n: usize) -> isize;
}
/// Report a refused request on stderr without allocating (the process aborts right after).
fn note_refused(size: usize) {
    REFUSED.fetch_max(size, Ordering::Relaxed);
    MAXREQ.fetch_max(size, Ordering::Relaxed);
    let mut buf = [0u8; 48];
    let pre = b"ASEVER-REFUSED ";
    buf[..pre.len()].copy_from_slice(pre);
    let mut digits = [0u8; 24];
    let mut n = size;
    let mut k = 0;
    loop {
        digits[k] = b'0' + (n % 10) as u8;
        n /= 10;
        k += 1;
        if n == 0 {
            break;
        }
    }
    let mut pos = pre.len();
    while k > 0 {
        k -= 1;
        buf[pos] = digits[k];
        pos += 1;
    }
    buf[pos] = b'\n';
    unsafe {
        write(2, buf.as_ptr(), pos + 1);
    }
}

fn note_alloc(size: usize) {
    let live = LIVE.fetch_add(size, Ordering::Relaxed) + size;
    PEAK.fetch_max(live, Ordering::Relaxed);
    MAXREQ.fetch_max(size, Ordering::Relaxed);
}

unsafe impl GlobalAlloc for Counting {
    unsafe fn alloc(&self, l: Layout) -> *mut u8 {
        if l.size() > CAP.load(Ordering::Relaxed) {
            note_refused(l.size());
            return std::ptr::null_mut();
        }
        let p = System.alloc(l);
        if !p.is_null() {
            note_alloc(l.size());
        }
        p
    }
    unsafe fn alloc_zeroed(&self, l: Layout) -> *mut u8 {
        if l.size() > CAP.load(Ordering::Relaxed) {
            note_refused(l.size());
            return std::ptr::null_mut();
        }
        let p = System.alloc_zeroed(l);
        if !p.is_null() {
            note_alloc(l.size());
        }
        p
    }
    unsafe fn dealloc(&self, p: *mut u8, l: Layout) {
        LIVE.fetch_sub(l.size(), Ordering::Relaxed);
        System.dealloc(p, l)
    }
    unsafe fn realloc(&self, p: *mut u8, l: Layout, new: usize) -> *mut u8 {
        if new > CAP.load(Ordering::Relaxed) {
            note_refused(new);
            return std::ptr::null_mut();
        }
        let q = System.realloc(p, l, new);
        if !q.is_null() {
            if new >= l.size() {
                note_alloc(new - l.size());
                MAXREQ.fetch_max(new, Ordering::Relaxed);
            } else {
                LIVE.fetch_sub(l.size() - new, Ordering::Relaxed);
            }
        }
        q
    }
}

#[global_allocator]
static A: Counting = Counting;

thread_local! {
    pub static PANIC_INFO: RefCell<Option<String>> = const { RefCell::new(None) };
}

pub fn install_panic_hook() {
    std::panic::set_hook(Box::new(|info| {
        let loc = info.location().map(|l| format!("{}:{}", l.file(), l.line())).unwrap_or_default();
        let msg = if let Some(s) = info.payload().downcast_ref::<&str>() {
            s.to_string()
        } else if let Some(s) = info.payload().downcast_ref::<String>() {
            s.clone()
        } else {
            "?".into()
        };
        let short: String = msg.chars().take(160).collect();
        if std::env::var_os("ASEVER_PANIC_TRACE").is_some() {
            eprintln!("asever: panic: {} @ {}", short, loc);
        }
        PANIC_INFO.with(|p| *p.borrow_mut() = Some(format!("{} @ {}", short, loc)));
    }));
}

pub fn hex_decode(s: &str) -> Vec<u8> {
    (0..s.len() / 2).map(|i| u8::from_str_radix(&s[2 * i..2 * i + 2], 16).unwrap_or(0)).collect()
}
pub fn hex_encode(b: &[u8]) -> String {
    b.iter().map(|x| format!("{:02x}", x)).collect()
}

fn usage() -> ! {
    eprintln!("usage: asever <worker|encode|fields|gen|blend|cuts|readers|threads|util|decode|probe> ...");
    std::process::exit(2)
}

/// A logger that is enabled at every level and formats every record (into nothing): with no logger installed the `log`
/// macros never evaluate their arguments, and a library user with env_logger at debug level runs different code than
/// one without. ASEVER_NO_LOGGER=1 switches it off.
struct FormatAll;
impl log::Log for FormatAll {
    fn enabled(&self, _: &log::Metadata) -> bool {
        true
    }
    fn log(&self, record: &log::Record) {
        use std::fmt::Write as _;
        struct Sink(usize);
        impl std::fmt::Write for Sink {
            fn write_str(&mut self, s: &str) -> std::fmt::Result {
                self.0 += s.len();
                Ok(())
            }
        }
        let mut k = Sink(0);
        let _ = write!(k, "{}", record.args());
    }
    fn flush(&self) {}
}
static LOGGER: FormatAll = FormatAll;

fn main() {
    let args: Vec<String> = std::env::args().collect();
    if args.len() < 2 {
        usage();
    }
    install_panic_hook();
    if std::env::var_os("ASEVER_NO_LOGGER").is_none() {
        let _ = log::set_logger(&LOGGER);
        log::set_max_level(log::LevelFilter::Trace);
    }
    if let Ok(c) = std::env::var("ASEVER_ALLOC_CAP") {
        if let Ok(v) = c.parse::<usize>() {
            CAP.store(v, Ordering::Relaxed);
        }
    }
    let rest: Vec<String> = args[2..].to_vec();
    // everything runs on an ordinary 2 MiB thread (C04/C05: stack bound of the property)
    let cmd = args[1].clone();
    let th = std::thread::Builder::new()
        .stack_size(2 * 1024 * 1024)
        .spawn(move || match cmd.as_str() {
            "worker" => drivers::worker(&rest),
            "encode" => drivers::encode_cmd(&rest),
            "fields" => drivers::fields_cmd(&rest),
            "encbytes" => drivers::encbytes_cmd(&rest),
            "gen" => gen::gen_cmd(&rest),
            "faults" => gen::faults_cmd(&rest),
            "cuts" => drivers::cuts_cmd(&rest),
            "blend" => drivers::blend_cmd(&rest),
            "readers" => drivers::readers_cmd(&rest),
            "threads" => drivers::threads_cmd(&rest),
            "util" => drivers::util_cmd(&rest),
            "decode" => drivers::decode_cmd(&rest),
            _ => usage(),
        })
        .unwrap();
    let r = th.join();
    if r.is_err() {
        eprintln!("asever: driver thread panicked: {:?}", PANIC_INFO.with(|p| p.borrow().clone()));
        std::process::exit(3);
    }
}

pub fn read_lines(path: &str) -> Box<dyn Iterator<Item = String>> {
    if path == "-" {
        Box::new(std::io::stdin().lock().lines().map(|l| l.unwrap()))
    } else {
        let f = std::fs::File::open(path).unwrap_or_else(|e| {
            eprintln!("cannot open {}: {}", path, e);
            std::process::exit(2)
        });
        Box::new(std::io::BufReader::new(f).lines().map(|l| l.unwrap()))
    }
}

pub struct Out {
    w: Box<dyn Write>,
}
impl Out {
    pub fn new(path: &str) -> Out {
        if path == "-" {
            Out { w: Box::new(std::io::BufWriter::new(std::io::stdout())) }
        } else {
            Out { w: Box::new(std::io::BufWriter::new(std::fs::File::create(path).unwrap())) }
        }
    }
    pub fn ev(&mut self, v: &Value) {
        serde_json::to_writer(&mut self.w, v).unwrap();
        self.w.write_all(b"\n").unwrap();
    }
    pub fn flush(&mut self) {
        self.w.flush().unwrap();
    }
}

pub fn arg<'a>(args: &'a [String], name: &str) -> Option<&'a str> {
    args.iter().position(|a| a == name).and_then(|i| args.get(i + 1)).map(|s| s.as_str())
}
pub fn flag(args: &[String], name: &str) -> bool {
    args.iter().any(|a| a == name)
}

#[allow(dead_code)]
pub fn jerr(msg: &str) -> Value {
    json!({"error": msg})
}
