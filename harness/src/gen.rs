//! Generators: G3 random/boundary well-formed sprite programs, C07 neutral encoding variants,
//! G5 structured faults (field table x boundary values) and byte-level mutants.
//! Generators only *produce inputs*; expected values always come from TLC.
use crate::prog::*;
use crate::{arg, hex_encode, read_lines, Out};
use rand::rngs::StdRng;
use rand::seq::SliceRandom;
use rand::{Rng, SeedableRng};
use serde_json::{json, Value};

pub struct Knobs {
    pub max_wh: u16,
    pub max_layers: usize,
    pub max_frames: usize,
    pub depths: Vec<u16>,
    pub tiles: bool,
    pub meta: bool,
    pub extremes: bool,
    pub groups: bool,
    pub links: bool,
    pub max_cel: u16,
    /// tilemap cels only at tile-aligned offsets (C08's quantifier); C02 also composes unaligned ones
    pub align_tiles: bool,
    /// tilemaps whose pixel extent exceeds 16 bits in one direction (long thin tiles x many tiles) on a small canvas
    pub bigmap: bool,
}

pub fn knobs(profile: &str) -> Knobs {
    let base = Knobs { max_wh: 4, max_layers: 3, max_frames: 3, depths: vec![32, 16, 8], tiles: true, meta: true, extremes: true, groups: true, links: true, max_cel: 4, align_tiles: true, bigmap: false };
    match profile {
        "struct" => Knobs { max_wh: 3, max_layers: 6, max_frames: 5, max_cel: 2, ..base },
        "render" => Knobs { max_wh: 6, max_layers: 5, max_frames: 3, meta: false, max_cel: 7, align_tiles: false, ..base },
        "cel" => Knobs { max_wh: 4, max_layers: 3, max_frames: 4, meta: false, tiles: false, max_cel: 5, ..base },
        "tile" => Knobs { max_wh: 7, max_layers: 3, max_frames: 2, meta: false, max_cel: 3, ..base },
        "big" => Knobs { max_wh: 24, max_layers: 6, max_frames: 4, max_cel: 24, ..base },
        "rgba" => Knobs { depths: vec![32], meta: false, tiles: false, ..base },
        // many frames / many layers (C01: counts far beyond what the GUI corpus has)
        // canvases up to the format maximum (nothing is rendered; dimension laws, tile lookups, accessors)
        "huge" => Knobs { max_wh: 65535, max_layers: 3, max_frames: 2, max_cel: 3, meta: false, ..base },
        // cels with more than 65535 pixels (row offsets beyond 16 bits), dragged onto a small canvas by a negative offset
        "bigcel" => Knobs { max_wh: 5, max_layers: 2, max_frames: 1, meta: false, tiles: false, links: false, groups: false, max_cel: 320, ..base },
        // one or two layers only: almost every frame has exactly one contributing layer (C19's second clause)
        "single" => Knobs { max_wh: 6, max_layers: 2, max_frames: 3, meta: false, max_cel: 5, align_tiles: false, ..base },
        // many cels / tilesets per sprite, mostly indexed (seeds for faults applied to every chunk of a kind at once)
        "manycels" => Knobs { max_wh: 4, max_layers: 6, max_frames: 6, depths: vec![8, 8, 16, 32], meta: false, max_cel: 3, ..base },
        "bigmap" => Knobs { max_wh: 6, max_layers: 2, max_frames: 1, meta: false, links: false, groups: false, bigmap: true, ..base },
        "long" => Knobs { max_wh: 2, max_layers: 3, max_frames: 3000, max_cel: 2, tiles: false, ..base },
        "wide" => Knobs { max_wh: 2, max_layers: 300, max_frames: 2, max_cel: 2, tiles: false, ..base },
        _ => base,
    }
}

const BOUND8: [u8; 9] = [0, 1, 2, 127, 128, 129, 253, 254, 255];
fn byte_b(r: &mut StdRng) -> u8 {
    if r.gen_bool(0.5) {
        *BOUND8.choose(r).unwrap()
    } else {
        r.gen()
    }
}
thread_local! {
    /// per-sprite naming style: 0 = mixed pool, 1 = every name empty (minimal-size records), 2 = every name one byte
    static NAME_STYLE: std::cell::Cell<u8> = const { std::cell::Cell::new(0) };
}
fn name(r: &mut StdRng) -> Vec<u8> {
    match NAME_STYLE.with(|c| c.get()) {
        1 => return vec![],
        2 => return vec![b'a' + r.gen_range(0..3u8)],
        _ => {}
    }
    if r.gen_bool(0.03) {
        // longer than 255 bytes, with multi-byte characters at varying alignments
        let n = r.gen_range(256..400);
        let mut s = String::new();
        while s.len() < n {
            s.push(*['a', 'é', '日', '😀', ' '].choose(r).unwrap());
        }
        return s.into_bytes();
    }
    let pool: [&str; 12] = ["", "a", "b", "Layer 1", "Layer 1", "é", "日本", "😀x", "tag", "a", "ÿ", "long name with spaces 0123456789"];
    pool.choose(r).unwrap().as_bytes().to_vec()
}
fn ud(r: &mut StdRng, counter: &mut u32) -> Chunk {
    *counter += 1;
    let which = r.gen_range(0..4);
    let text = if which & 1 == 1 { vec![format!("ud{}{}", counter, if r.gen_bool(0.2) { "é" } else { "" }).into_bytes()] } else { vec![] };
    let color = if which & 2 == 2 { vec![[byte_b(r), (*counter % 256) as u8, byte_b(r), byte_b(r)]] } else { vec![] };
    Chunk::Ud(UdC { text, color })
}
fn i32x(r: &mut StdRng) -> I32S {
    I32S(match r.gen_range(0..6) {
        0 => i32::MIN,
        1 => i32::MAX,
        2 => -1,
        3 => 0,
        _ => r.gen_range(-70000..70000),
    })
}
thread_local! {
    /// --stored: sprites meant for the TLA+ byte-level decoder (TLC integers are 32-bit signed: no value >= 2^31)
    static DECODABLE: std::cell::Cell<bool> = const { std::cell::Cell::new(false) };
}
fn u32x(r: &mut StdRng) -> U32S {
    let dec = DECODABLE.with(|c| c.get());
    U32S(match r.gen_range(0..6) {
        0 if dec => 65536,
        1 if dec => (1 << 31) - 2,
        0 => u32::MAX,
        1 => 1 << 31,
        2 => (1 << 31) - 1,
        3 => 0,
        _ => r.gen_range(0..70000),
    })
}
fn offs(r: &mut StdRng, canvas: u16, cel: u16, extremes: bool) -> i16 {
    let c = canvas as i32;
    let w = cel as i32;
    let mut cands = vec![-w - 1, -w, -w + 1, -1, 0, 1, c - w, c - 1, c, c + 1];
    if extremes {
        cands.extend([-32768, 32767, 32767 - w]);
    }
    let v = match r.gen_range(0..20) {
        0..=7 => 0.max(r.gen_range(0..=c.max(1)) - r.gen_range(0..=w)),
        // hanging over the low edge (top / left) by every possible amount, or over the high edge
        8..=12 if w > 1 => -r.gen_range(1..w),
        13..=15 if w > 1 => c - w + r.gen_range(1..w),
        _ => *cands.choose(r).unwrap(),
    };
    v.clamp(-32768, 32767) as i16
}

struct Ctx {
    depth: u16,
    tidx: u8,
    pal_ids: Vec<u32>,
    /// pixel values v for which the palette also has an entry v + 256k (k >= 1)
    alias: Vec<u8>,
}
fn pixel(r: &mut StdRng, c: &Ctx) -> Vec<u8> {
    match c.depth {
        32 => vec![byte_b(r), byte_b(r), byte_b(r), byte_b(r)],
        16 => vec![byte_b(r), byte_b(r)],
        _ => vec![if r.gen_bool(0.25) && c.pal_ids.contains(&(c.tidx as u32)) {
            c.tidx
        } else if !c.alias.is_empty() && r.gen_bool(0.5) {
            *c.alias.choose(r).unwrap()
        } else {
            *c.pal_ids.choose(r).unwrap() as u8
        }],
    }
}
fn transparent_pixel(c: &Ctx) -> Vec<u8> {
    match c.depth {
        32 => vec![9, 9, 9, 0],
        16 => vec![7, 0],
        _ => vec![c.tidx],
    }
}
fn store(r: &mut StdRng) -> String {
    ["z0", "z1", "z6", "z9", "stored"].choose(r).unwrap().to_string()
}

/// entity counts: usually a handful; sometimes a few dozen (thresholds of size heuristics sit there); rarely beyond a byte
fn count(r: &mut StdRng, small: std::ops::Range<usize>, extremes: bool) -> usize {
    if extremes && r.gen_bool(0.03) {
        r.gen_range(256..270)
    } else if extremes && r.gen_bool(0.08) {
        r.gen_range(5..48)
    } else {
        r.gen_range(small)
    }
}

pub fn gen_sprite(r: &mut StdRng, k: &Knobs) -> Program {
    NAME_STYLE.with(|c| c.set(if !k.extremes { 0 } else { *[0u8, 0, 0, 0, 0, 0, 0, 1, 1, 2].choose(r).unwrap() }));
    let depth = *k.depths.choose(r).unwrap();
    let dim = |r: &mut StdRng| -> u16 {
        if k.max_wh > 1000 {
            *[65535u16, 65534, 65533, 40000, 32768, 32767, 4097, 300, 7].choose(r).unwrap()
        } else {
            r.gen_range(1..=k.max_wh)
        }
    };
    let (mut w, mut h) = (dim(r), dim(r));
    if k.extremes && k.max_wh <= 1000 && r.gen_bool(0.04) {
        if r.gen_bool(0.5) {
            w = r.gen_range(256..300);
            h = 1;
        } else {
            h = r.gen_range(256..300);
            w = 1;
        }
    }
    let nframes = if k.max_frames > 100 { k.max_frames - r.gen_range(0..10) } else { r.gen_range(1..=k.max_frames) };
    let mut udc = 0u32;
    let mut f0: Vec<Chunk> = vec![];
    let use_tiles = k.tiles && (k.bigmap || r.gen_bool(0.5));

    // palette
    let mut pal_ids: Vec<u32> = vec![];
    let mut alias: Vec<u8> = vec![];
    let mut tidx: u8 = if r.gen_bool(0.5) { 0 } else { byte_b(r) };
    let want_pal = depth == 8 || (k.meta && r.gen_bool(0.4));
    let mut sprite_ud_done = false;
    if want_pal {
        let style = r.gen_range(0..4);
        if style <= 1 {
            // new format, contiguous range first..last
            let hi = depth != 8 && r.gen_bool(0.2);
            // indexed sprites too can carry more than 256 entries (pixels address the first 256 only)
            let over = depth == 8 && r.gen_bool(0.25);
            let first = if over { r.gen_range(0..3u32) } else if hi { r.gen_range(250..400u32) } else if r.gen_bool(0.6) { 0 } else { r.gen_range(0..200u32) };
            let n = if over { r.gen_range(257..300u32) } else if hi && r.gen_bool(0.3) { r.gen_range(257..300u32) } else if hi { r.gen_range(1..=12u32) } else { r.gen_range(1..=12u32).min(256 - first) };
            let last = first + n - 1;
            pal_ids = (first..=last).filter(|i| depth != 8 || *i < 256).collect();
            if depth == 8 {
                alias = (first..=last).filter(|i| *i >= 256 && (first..=last).contains(&(*i % 256))).map(|i| (i % 256) as u8).collect();
            }
            let entries = (0..n)
                .map(|_| {
                    let named = r.gen_bool(0.2);
                    PalE { flags: if named { 1 } else { 0 } | if r.gen_bool(0.1) { 0x10 } else { 0 }, rgba: [byte_b(r), byte_b(r), byte_b(r), if r.gen_bool(0.6) { 255 } else { byte_b(r) }], name: if named { name(r) } else { vec![] } }
                })
                .collect();
            if style == 1 {
                // redundant legacy chunk beside the new one (C07/C11: new takes precedence in either order)
                let legacy = Chunk::OldPal04(OldPalC { packets: vec![PacketP { skip: 0, count: 2, rgb: vec![[1, 2, 3], [4, 5, 6]] }] });
                if r.gen_bool(0.5) {
                    f0.push(legacy);
                    f0.push(Chunk::Pal(PalC { total: U32S(last + 1), first: U32N(first), last: U32N(last), entries }));
                } else {
                    f0.push(Chunk::Pal(PalC { total: U32S(last + 1), first: U32N(first), last: U32N(last), entries }));
                    f0.push(legacy);
                }
                if k.meta && r.gen_bool(0.5) {
                    // sprite user data follows the legacy chunk directly
                    let pos = f0.iter().position(|c| matches!(c, Chunk::OldPal04(_))).unwrap();
                    f0.insert(pos + 1, ud(r, &mut udc));
                    sprite_ud_done = true;
                }
            } else {
                f0.push(Chunk::Pal(PalC { total: U32S(last + 1), first: U32N(first), last: U32N(last), entries }));
            }
        } else {
            // legacy packets, possibly sparse
            let six = style == 3;
            let npk = r.gen_range(1..=3);
            let mut packets = vec![];
            let mut skip_total = 0u32;
            for _ in 0..npk {
                let skip = if r.gen_bool(0.5) { 0 } else { r.gen_range(0..20u32) };
                let cnt = r.gen_range(1..=6u32);
                if skip_total + skip + cnt > 256 {
                    break;
                }
                skip_total += skip;
                let rgb = (0..cnt).map(|_| if six { [r.gen_range(0..64u8), *[0u8, 63, 31, 32].choose(r).unwrap(), r.gen_range(0..64u8)] } else { [byte_b(r), byte_b(r), byte_b(r)] }).collect();
                for i in 0..cnt {
                    pal_ids.push(skip_total + i);
                }
                packets.push(PacketP { skip: skip as u8, count: cnt as u8, rgb });
            }
            pal_ids.sort();
            pal_ids.dedup();
            let c = OldPalC { packets };
            f0.push(if six { Chunk::OldPal11(c) } else { Chunk::OldPal04(c) });
            if k.meta && r.gen_bool(0.5) {
                f0.push(ud(r, &mut udc));
                sprite_ud_done = true;
            }
        }
        if depth == 8 && (use_tiles || r.gen_bool(0.7)) {
            tidx = *pal_ids.choose(r).unwrap() as u8;
        }
    }
    let _ = sprite_ud_done;
    let cx = Ctx { depth, tidx, pal_ids, alias };

    if k.meta && r.gen_bool(0.3) {
        let pos = r.gen_range(0..=f0.len());
        // an ignorable colour profile must not sit between the legacy palette and its user data
        let ok = pos == 0 || !matches!(f0.get(pos), Some(Chunk::Ud(_)));
        if ok {
            f0.insert(pos, Chunk::Profile(ProfileC { ptype: r.gen_range(0..2), flags: 0, gamma: U32S(r.gen()), icc: vec![] }));
        }
    }
    if k.meta && r.gen_bool(0.4) {
        let n = count(r, 1..4, k.extremes) as u32;
        let entries = (0..n).map(|i| ExtE { id: if r.gen_bool(0.2) { u32x(r) } else { U32S(i + 1) }, etype: r.gen_range(0..4), name: name(r) }).collect::<Vec<_>>();
        // ids must be unique (out of contract otherwise)
        let mut seen = std::collections::HashSet::new();
        let entries: Vec<ExtE> = entries.into_iter().filter(|e| seen.insert(e.id.0)).collect();
        f0.push(Chunk::ExtFiles(ExtFilesC { entries }));
    }

    // tilesets
    let mut tilesets: Vec<(u32, u16, u16, u32)> = vec![];
    if use_tiles {
        let n = r.gen_range(1..=2);
        for i in 0..n {
            let id = if r.gen_bool(0.6) { i as u32 } else if r.gen_bool(0.6) { i as u32 + r.gen_range(1..4u32) } else if r.gen_bool(0.5) { r.gen_range(0..1000u32) * 2 + i as u32 } else { *(if DECODABLE.with(|c| c.get()) { [65536u32, 70001, 0x7fff_fff0, 0x7fff_0000] } else { [65536u32, 70001, 0x7fff_ffff, 0xffff_fffe] }).choose(r).unwrap() + i as u32 };
            if tilesets.iter().any(|t| t.0 == id) {
                continue;
            }
            let (tw, th) = if k.bigmap {
                *[(256u16, 1u16), (1, 256), (128, 2), (2, 128), (255, 1), (1, 300), (1, 1), (1, 1), (2, 1), (1, 1), (2, 1), (1, 1)].choose(r).unwrap()
            } else if k.max_wh > 1000 && r.gen_bool(0.5) {
                *[(2u16, 2u16), (255, 3), (3, 255), (16, 16), (1, 1000), (4096, 1)].choose(r).unwrap()
            } else if r.gen_bool(0.15) {
                // strongly non-square tiles (a width / height mix-up shows on most placements)
                *[(1u16, 4u16), (4, 1), (2, 5), (5, 2), (1, 6), (6, 1)].choose(r).unwrap()
            } else {
                (r.gen_range(1..=3u16), r.gen_range(1..=3u16))
            };
            let count = r.gen_range(1..=4u32);
            let mut px = vec![];
            for t in 0..count {
                for _ in 0..(tw * th) {
                    px.push(if t == 0 { transparent_pixel(&cx) } else { pixel(r, &cx) });
                }
            }
            let ext = r.gen_bool(0.2);
            f0.push(Chunk::Tileset(TilesetC {
                id: U32S(id),
                flags: 2 | if r.gen_bool(0.8) { 4 } else { 0 } | if ext { 1 } else { 0 },
                count: U32N(count),
                tw,
                th,
                base: *[1i16, 0, -1, 32767, -32768].choose(r).unwrap(),
                name: name(r),
                ext: if ext { ExtRef { file: u32x(r), ts: u32x(r) } } else { ExtRef::default() },
                px,
                store: store(r),
            }));
            tilesets.push((id, tw, th, count));
        }
    }

    // layers (a forest)
    let nl = if k.max_layers > 100 { k.max_layers - r.gen_range(0..10) } else { r.gen_range(1..=k.max_layers) };
    let mut levels: Vec<u16> = vec![];
    let mut ltypes: Vec<u16> = vec![];
    let mut lts: Vec<Option<(u32, u16, u16, u32)>> = vec![];
    for i in 0..nl {
        // a layer can only be nested inside a group: level <= (level of previous if group then +1)
        let maxl = if i == 0 { 0 } else if ltypes[i - 1] == 1 { levels[i - 1] + 1 } else { levels[i - 1] };
        let level = if k.groups { r.gen_range(0..=maxl) } else { 0 };
        let lt = if k.groups && r.gen_bool(0.25) && i + 1 < nl {
            1
        } else if !tilesets.is_empty() && r.gen_bool(0.5) {
            2
        } else {
            0
        };
        levels.push(level);
        ltypes.push(lt);
        let ts = if lt == 2 { Some(*tilesets.choose(r).unwrap()) } else { None };
        lts.push(ts);
        let vis = r.gen_bool(0.8);
        let mut flags: u16 = if vis { 1 } else { 0 };
        for b in [2u16, 4, 16, 32, 64] {
            if r.gen_bool(0.3) {
                flags |= b;
            }
        }
        if i == 0 && lt == 0 && r.gen_bool(0.3) {
            flags |= 8;
        }
        if i > 0 && lt == 0 && r.gen_bool(0.05) {
            flags |= 8;
        }
        f0.push(Chunk::Layer(LayerC {
            flags,
            ltype: lt,
            level,
            blend: if r.gen_bool(0.4) { 0 } else { r.gen_range(0..19) },
            opacity: if r.gen_bool(0.5) { 255 } else { byte_b(r) },
            name: name(r),
            tileset: ts.map(|t| vec![U32S(t.0)]).unwrap_or_default(),
            dw: r.gen(),
            dh: r.gen(),
            rsv: 0,
        }));
        if k.meta && r.gen_bool(0.3) {
            if r.gen_bool(0.3) {
                f0.push(Chunk::CelExtra(IgnC { body: vec![0; 20] }));
            }
            f0.push(ud(r, &mut udc));
        }
    }
    // tags
    if k.meta && r.gen_bool(0.6) {
        let n = count(r, 0..4, k.extremes);
        let tags: Vec<TagP> = (0..n)
            .map(|_| TagP { from: r.gen_range(0..nframes as u16), to: if r.gen_bool(0.8) { r.gen_range(0..nframes as u16) } else { r.gen() }, dir: r.gen_range(0..3), repeat: if r.gen_bool(0.5) { 0 } else { r.gen() }, color: U32S(r.gen()), name: name(r) })
            .collect();
        f0.push(Chunk::Tags(TagsC { tags }));
        let nud = if n > 100 { n - r.gen_range(0..3) } else { r.gen_range(0..=n) };
        for _ in 0..nud {
            if r.gen_bool(0.2) {
                f0.push(Chunk::Mask(IgnC { body: vec![1, 2, 3] }));
            }
            f0.push(ud(r, &mut udc));
        }
    }

    // cels: plan per layer which frames hold raw / linked / tilemap cels
    let mut frames: Vec<Vec<Chunk>> = vec![vec![]; nframes];
    for l in 0..nl {
        if ltypes[l] == 1 {
            continue;
        }
        let mut raw_frames: Vec<usize> = vec![];
        let mut plan: Vec<u8> = vec![]; // 0 none, 1 data, 2 linked
        let pcel = if nframes > 100 { 0.01 } else { 0.75 };
        for _ in 0..nframes {
            plan.push(if r.gen_bool(pcel) { 1 } else { 0 });
        }
        for (f, p) in plan.iter().enumerate() {
            if *p == 1 {
                raw_frames.push(f);
            }
        }
        if k.links && ltypes[l] == 0 && !raw_frames.is_empty() {
            for f in 0..nframes {
                if plan[f] == 0 && r.gen_bool(0.5) {
                    plan[f] = 2;
                }
            }
        }
        for f in 0..nframes {
            let common = |r: &mut StdRng, cw: u16, ch: u16, unit_w: u16, unit_h: u16| -> (i16, i16, u8) {
                let x = offs(r, w, cw, k.extremes);
                let y = offs(r, h, ch, k.extremes);
                // tile-aligned offsets for tilemaps (C08 quantifier)
                let align = k.align_tiles || r.gen_bool(0.4);
                let ax = if unit_w > 1 && align { ((x as i32 / unit_w as i32) * unit_w as i32) as i16 } else { x };
                let ay = if unit_h > 1 && align { ((y as i32 / unit_h as i32) * unit_h as i32) as i16 } else { y };
                (ax, ay, if r.gen_bool(0.5) { 255 } else { byte_b(r) })
            };
            let c = match plan[f] {
                1 if ltypes[l] == 2 => {
                    let (_, tw, th, count) = lts[l].unwrap();
                    let lo = if r.gen_bool(0.1) { 0 } else { 1 };
                    let mut mw = r.gen_range(lo..=3u16);
                    let mut mh = r.gen_range(1..=3u16);
                    if k.bigmap {
                        // enough tiles for the far end to lie beyond pixel 65535
                        if tw <= 2 && th == 1 {
                            // more than 2^16 stored tiles (row-major indices beyond 16 bits)
                            mw = r.gen_range(257..261);
                            mh = r.gen_range(256..260);
                        } else if tw >= th {
                            mw = (65536 / tw as u32) as u16 + r.gen_range(1..4);
                            mh = r.gen_range(1..=2);
                        } else {
                            mh = (65536 / th as u32) as u16 + r.gen_range(1..4);
                            mw = r.gen_range(1..=2);
                        }
                    }
                    let (mut x, mut y, op) = common(r, mw.saturating_mul(tw), mh.saturating_mul(th), tw, th);
                    if k.bigmap {
                        // near the origin: the far tiles are off canvas unless their coordinates wrap
                        x = if tw >= th { -(tw as i16) * r.gen_range(0..2) } else { 0 };
                        y = if th > tw { -(th as i16) * r.gen_range(0..2) } else { 0 };
                    }
                    let tiles = (0..(mw as usize * mh as usize)).map(|_| U32N(r.gen_range(0..count) | if r.gen_bool(0.15) { 1 << 30 } else { 0 } | if r.gen_bool(0.1) { 1 << 29 } else { 0 })).collect();
                    // mw = 0 makes an empty map (0 x mh): still well formed (no tiles)
                    Some(CelC { layer: l as u16, x, y, opacity: op, ctype: 3, w: mw, h: mh, tiles, store: store(r), ..Default::default() })
                }
                1 => {
                    let (cw, ch) = if k.max_cel >= 300 {
                        (r.gen_range(256..=k.max_cel), r.gen_range(257..=k.max_cel))
                    } else if k.extremes && r.gen_bool(0.03) {
                        if r.gen_bool(0.5) { (r.gen_range(256..280u16), 1) } else { (1, r.gen_range(256..280u16)) }
                    } else {
                        (r.gen_range(1..=k.max_cel), r.gen_range(1..=k.max_cel))
                    };
                    let (mut x, mut y, op) = common(r, cw, ch, 1, 1);
                    if k.max_cel >= 300 {
                        x = -(cw as i16) + r.gen_range(1..=w.min(4)) as i16;
                        y = -(ch as i16) + r.gen_range(1..=h.min(4)) as i16;
                    }
                    let px = (0..(cw as usize * ch as usize)).map(|_| pixel(r, &cx)).collect();
                    Some(CelC { layer: l as u16, x, y, opacity: op, ctype: if r.gen_bool(0.3) { 0 } else { 2 }, w: cw, h: ch, px, store: store(r), ..Default::default() })
                }
                2 => {
                    let tgt = *raw_frames.choose(r).unwrap();
                    let (x, y, op) = common(r, 1, 1, 1, 1);
                    Some(CelC { layer: l as u16, x, y, opacity: op, ctype: 1, link: tgt as u16, ..Default::default() })
                }
                _ => None,
            };
            if let Some(mut c) = c {
                c.bits = 32;
                c.masks = [U32N(0x1fff_ffff), U32N(0x8000_0000), U32N(0x4000_0000), U32N(0x2000_0000)];
                frames[f].push(Chunk::Cel(c));
                if k.meta && r.gen_bool(0.25) {
                    if r.gen_bool(0.3) {
                        frames[f].push(Chunk::CelExtra(IgnC { body: vec![0; 20] }));
                    }
                    frames[f].push(ud(r, &mut udc));
                }
            }
        }
    }
    // slices (any frame; Aseprite writes them in frame 0)
    let mut slices: Vec<Chunk> = vec![];
    if k.meta && r.gen_bool(0.5) {
        let nslices = count(r, 1..3, k.extremes);
        for _ in 0..nslices {
            let flags = r.gen_range(0..4u32);
            let keys = (0..count(r, 0..3, k.extremes && nslices < 20))
                .map(|_| KeyP { frame: u32x(r), x: i32x(r), y: i32x(r), w: u32x(r), h: u32x(r), s9: S9P { cx: i32x(r), cy: i32x(r), cw: u32x(r), ch: u32x(r) }, pivot: PivP { x: i32x(r), y: i32x(r) } })
                .collect();
            slices.push(Chunk::Slice(SliceC { name: name(r), flags: U32N(flags), keys, rsv: U32S(0) }));
            if r.gen_bool(0.4) {
                slices.push(ud(r, &mut udc));
            }
        }
    }
    let mut out_frames = vec![];
    for (f, mut cels) in frames.into_iter().enumerate() {
        // the order in which a frame's cel chunks are stored is free (C02): half of the frames are not in layer order
        if r.gen_bool(0.5) {
            let mut groups: Vec<Vec<Chunk>> = vec![];
            for c in cels.drain(..) {
                if matches!(c, Chunk::Cel(_)) {
                    groups.push(vec![c]);
                } else if let Some(g) = groups.last_mut() {
                    g.push(c);
                }
            }
            if r.gen_bool(0.5) {
                groups.reverse();
            } else {
                groups.shuffle(r);
            }
            cels = groups.into_iter().flatten().collect();
        }
        let mut chunks = if f == 0 { f0.clone() } else { vec![] };
        chunks.extend(cels);
        if f == 0 {
            chunks.extend(slices.clone());
        }
        out_frames.push(FrameP { dur: if r.gen_bool(0.3) { *[0u16, 1, 65535].choose(r).unwrap() } else { r.gen_range(1..1000) }, chunks, ..Default::default() });
    }
    let hdr = Hdr { nframes: Some(nframes as u16), w, h, depth, tidx, pixw: 1, pixh: 1, speed: r.gen(), ncolors: r.gen(), ..Default::default() };
    if k.meta && nframes >= 2 && nframes <= 100 && r.gen_bool(0.25) {
        spread(r, &mut out_frames);
    }
    let mut p = Program { hdr, frames: out_frames, trailing: vec![] };
    p.normalize();
    p
}

/// true when a chunk inserted at `at` would sit between an entity and its user data record
fn takes_record(chunks: &[Chunk], at: usize) -> bool {
    let mut i = at;
    while i < chunks.len() && matches!(chunks[i], Chunk::CelExtra(_) | Chunk::Mask(_) | Chunk::Path(_) | Chunk::Profile(_)) {
        i += 1;
    }
    matches!(chunks.get(i), Some(Chunk::Ud(_)))
}

/// Writers put all sprite-level chunks into frame 0, but the format lets most of them appear in any frame and the
/// user-data context lives across frame boundaries. Move some of them (the specification defines the result for any
/// chunk sequence; cels must still follow their layers and tilesets stay where they are).
fn spread(r: &mut StdRng, frames: &mut [FrameP]) {
    let nf = frames.len();
    let is_att = |c: &Chunk| matches!(c, Chunk::Ud(_) | Chunk::Mask(_) | Chunk::Path(_) | Chunk::CelExtra(_));
    let mut front: Vec<Chunk> = vec![]; // goes to the front of frame 1, in this order
    match r.gen_range(0..3) {
        0 => {
            // the tags chunk and its records become the tail of frame 0; some of the records open frame 1
            let f0 = &mut frames[0].chunks;
            if let Some(ti) = f0.iter().position(|c| matches!(c, Chunk::Tags(_))) {
                let mut end = ti + 1;
                while end < f0.len() && is_att(&f0[end]) {
                    end += 1;
                }
                let mut run: Vec<Chunk> = f0.drain(ti..end).collect();
                let keep = r.gen_range(1..=run.len());
                front = run.split_off(keep);
                f0.extend(run);
            }
        }
        1 => {
            // the trailing slices (with their records) are cut somewhere: the rest opens frame 1
            let f0 = &mut frames[0].chunks;
            if let Some(si) = f0.iter().position(|c| matches!(c, Chunk::Slice(_))) {
                if f0[si..].iter().all(|c| matches!(c, Chunk::Slice(_)) || is_att(c)) {
                    let at = r.gen_range(si..=f0.len());
                    front = f0.split_off(at);
                }
            }
        }
        _ => {
            // the last chunk of frame 0 is an entity whose record opens frame 1 (cel, slice, layer ...)
            let f0 = &mut frames[0].chunks;
            if matches!(f0.last(), Some(Chunk::Ud(_))) && f0.len() >= 2 && !matches!(f0[f0.len() - 2], Chunk::Ud(_)) {
                front = vec![f0.pop().unwrap()];
            }
        }
    }
    for (i, c) in front.into_iter().enumerate() {
        frames[1].chunks.insert(i, c);
    }
    // sprite-level chunks that carry no record move to (the front of) a later frame
    let has_legacy = frames[0].chunks.iter().any(|c| matches!(c, Chunk::OldPal04(_) | Chunk::OldPal11(_)));
    let mut i = 0;
    while i < frames[0].chunks.len() {
        let movable = match &frames[0].chunks[i] {
            Chunk::ExtFiles(_) | Chunk::Profile(_) => true,
            Chunk::Pal(_) => !has_legacy,
            _ => false,
        };
        let next_is_ud = matches!(frames[0].chunks.get(i + 1), Some(Chunk::Ud(_)));
        let prev_is_legacy = i > 0 && matches!(frames[0].chunks[i - 1], Chunk::OldPal04(_) | Chunk::OldPal11(_));
        if movable && !next_is_ud && !prev_is_legacy && r.gen_bool(0.5) {
            let c = frames[0].chunks.remove(i);
            let f = r.gen_range(1..nf);
            // not in front of a record that opens the frame
            let at = frames[f].chunks.iter().position(|c| !matches!(c, Chunk::Ud(_))).unwrap_or(frames[f].chunks.len());
            frames[f].chunks.insert(at, c);
        } else {
            i += 1;
        }
    }
    // a legacy palette chunk repeated in a later frame (writers of old versions repeat it in every frame)
    if has_legacy && r.gen_bool(0.5) {
        let c = frames[0].chunks.iter().find(|c| matches!(c, Chunk::OldPal04(_) | Chunk::OldPal11(_))).unwrap().clone();
        let f = r.gen_range(1..nf);
        let at = frames[f].chunks.iter().position(|c| !matches!(c, Chunk::Ud(_))).unwrap_or(frames[f].chunks.len());
        if !takes_record(&frames[f].chunks, at) {
            frames[f].chunks.insert(at, c);
        }
    }
}

// ---------------------------------------------------------------------------------------
// C07: observationally neutral encoding variants of one program
pub fn variant(r: &mut StdRng, p: &Program, which: usize) -> (Program, String) {
    let mut q = p.clone();
    let label;
    match which % 13 {
        0 => {
            label = "cel storage (raw / zlib level / stored blocks)";
            for f in &mut q.frames {
                for c in &mut f.chunks {
                    match c {
                        Chunk::Cel(c) if c.ctype == 0 || c.ctype == 2 => {
                            // raw is only equivalent when the declared size matches the data
                            c.ctype = if r.gen_bool(0.5) && c.px.len() == c.w as usize * c.h as usize { 0 } else { 2 };
                            c.store = store(r);
                        }
                        Chunk::Cel(c) if c.ctype == 3 => c.store = store(r),
                        Chunk::Tileset(t) => t.store = store(r),
                        _ => {}
                    }
                }
            }
        }
        1 => {
            label = "chunk count field (old / new / both / old=0xFFFF)";
            for f in &mut q.frames {
                let n = f.chunks.len();
                let mut opts = vec!["both"];
                if n > 0 {
                    // with an empty frame both fields are 0 in every encoding
                    opts.push("new");
                    opts.push("old_ffff");
                }
                if n < 0xFFFF {
                    opts.push("old");
                }
                f.count_field = opts.choose(r).unwrap().to_string();
            }
        }
        2 | 3 => {
            label = "ignorable chunks inserted (cel-extra, mask, path, sRGB/none profile)";
            for f in &mut q.frames {
                let n = r.gen_range(1..4);
                for _ in 0..n {
                    let pos = r.gen_range(0..=f.chunks.len());
                    let c = match r.gen_range(0..5) {
                        0 => Chunk::CelExtra(IgnC { body: vec![1; 20] }),
                        1 => Chunk::Mask(IgnC { body: vec![2; r.gen_range(0..30)] }),
                        2 => Chunk::Path(IgnC { body: vec![] }),
                        3 => Chunk::Profile(ProfileC { ptype: 1, flags: 0, gamma: U32S(0), icc: vec![] }),
                        _ => Chunk::Profile(ProfileC { ptype: 0, flags: 0, gamma: U32S(r.gen()), icc: vec![] }),
                    };
                    f.chunks.insert(pos, c);
                    f.pads.insert(pos, 0);
                }
            }
        }
        4 => {
            label = "unused header and layer field values";
            q.hdr.flags = U32S(r.gen());
            q.hdr.speed = r.gen();
            q.hdr.ncolors = r.gen();
            q.hdr.grid = [r.gen(), r.gen()];
            q.hdr.gridsz = [r.gen(), r.gen()];
            q.hdr.rsv = r.gen();
            q.hdr.fsize = Some(U32S(r.gen()));
            for f in &mut q.frames {
                f.rsv = r.gen();
                for c in &mut f.chunks {
                    match c {
                        Chunk::Layer(l) => {
                            l.dw = r.gen();
                            l.dh = r.gen();
                            l.rsv = r.gen();
                            l.flags |= r.gen::<u16>() & 0xFF80; // undefined flag bits
                        }
                        Chunk::Cel(c) => c.rsv = r.gen(),
                        Chunk::Tags(t) => t.tags.iter_mut().for_each(|t| t.color = U32S(r.gen())),
                        Chunk::Slice(s) => s.rsv = U32S(r.gen()),
                        Chunk::Pal(p) => p.total = U32S(r.gen()),
                        _ => {}
                    }
                }
            }
        }
        5 => {
            label = "pixel ratio with a zero component";
            let (a, b) = *[(0u8, 0u8), (0, 7), (5, 0), (0, 255), (1, 0)].choose(r).unwrap();
            q.hdr.pixw = a;
            q.hdr.pixh = b;
        }
        6 => {
            label = "extra bytes at the end of chunks";
            for f in &mut q.frames {
                for (i, c) in f.chunks.iter().enumerate() {
                    // trailing bytes after a zlib stream / raw pixel data / fixed layouts are never read
                    let ok = !matches!(c, Chunk::Raw(_));
                    if ok && r.gen_bool(0.6) {
                        f.pads[i] = r.gen_range(1..=64);
                    }
                }
            }
        }
        7 => {
            label = "extra bytes after the last frame";
            let n = r.gen_range(1..200);
            q.trailing = (0..n).map(|_| r.gen()).collect();
        }
        8 => {
            label = "redundant legacy palette chunk beside the new palette chunk";
            // only where a new-format palette exists and no legacy chunk is present yet
            let has_new = q.frames.iter().any(|f| f.chunks.iter().any(|c| matches!(c, Chunk::Pal(_))));
            let has_old = q.frames.iter().any(|f| f.chunks.iter().any(|c| matches!(c, Chunk::OldPal04(_) | Chunk::OldPal11(_))));
            if has_new && !has_old && !q.frames.is_empty() {
                // the frame that holds the (first) new palette chunk
                let fi = q.frames.iter().position(|f| f.chunks.iter().any(|c| matches!(c, Chunk::Pal(_)))).unwrap();
                let f = &mut q.frames[fi];
                let pos = f.chunks.iter().position(|c| matches!(c, Chunk::Pal(_))).unwrap();
                let legacy = OldPalC { packets: vec![PacketP { skip: r.gen_range(0..3), count: 3, rgb: vec![[9, 8, 7], [6, 5, 4], [3, 2, 1]] }] };
                // placed where a writer puts it: directly before or after the new chunk, and never
                // between an entity and its user data (it would legitimately take the record)
                let at = if r.gen_bool(0.5) { pos } else { pos + 1 };
                let follows_ud = takes_record(&f.chunks, at);
                let chunk = if r.gen_bool(0.5) { Chunk::OldPal04(legacy) } else { Chunk::OldPal11(legacy) };
                if !follows_ud {
                    f.chunks.insert(at, chunk.clone());
                    f.pads.insert(at, 0);
                }
                // old writers repeat the legacy chunk in later frames: still redundant
                let nf = q.frames.len();
                if fi + 1 < nf && r.gen_bool(0.6) {
                    let g = &mut q.frames[r.gen_range((fi + 1)..nf)];
                    let at = r.gen_range(0..=g.chunks.len());
                    if !takes_record(&g.chunks, at) {
                        g.chunks.insert(at, chunk);
                        g.pads.insert(at, 0);
                    }
                }
            } else if has_old && q.frames.len() >= 2 {
                // a legacy chunk is already there (alone or beside a new one): repeat it in a frame after every palette chunk
                let c = q.frames.iter().flat_map(|f| f.chunks.iter()).find(|c| matches!(c, Chunk::OldPal04(_) | Chunk::OldPal11(_))).cloned();
                let last_pal = q.frames.iter().rposition(|f| f.chunks.iter().any(|c| matches!(c, Chunk::Pal(_) | Chunk::OldPal04(_) | Chunk::OldPal11(_)))).unwrap();
                let nf = q.frames.len();
                if let (Some(c), true) = (c, last_pal + 1 < nf) {
                    let g = &mut q.frames[r.gen_range((last_pal + 1)..nf)];
                    let at = r.gen_range(0..=g.chunks.len());
                    if !takes_record(&g.chunks, at) {
                        g.chunks.insert(at, c);
                        g.pads.insert(at, 0);
                    }
                }
            }
        }
        9 | 10 => {
            label = "order of cel chunks within a frame";
            // a record that opens the NEXT frame belongs to the last entity of this frame: such a frame keeps its order
            let opens_with_record: Vec<bool> = (0..q.frames.len()).map(|i| q.frames.get(i + 1).map_or(false, |g| takes_record(&g.chunks, 0))).collect();
            for (fi, f) in q.frames.iter_mut().enumerate() {
                // groups: a cel chunk with the non-cel chunks that follow it (its user data, cel-extra)
                let first_cel = if opens_with_record[fi] { None } else { f.chunks.iter().position(|c| matches!(c, Chunk::Cel(_))) };
                if let Some(start) = first_cel {
                    // only permute a maximal run in which every group starts with a cel and contains no
                    // other attachable entity (layer, slice, tags, legacy palette)
                    let mut end = start;
                    // (ignorable chunks do not move the user data context, so they stay with the group they are in)
                    while end < f.chunks.len() && matches!(f.chunks[end], Chunk::Cel(_) | Chunk::Ud(_) | Chunk::CelExtra(_) | Chunk::Mask(_) | Chunk::Path(_) | Chunk::Profile(_)) {
                        end += 1;
                    }
                    let mut groups: Vec<Vec<(Chunk, u32)>> = vec![];
                    for i in start..end {
                        let item = (f.chunks[i].clone(), f.pads[i]);
                        if matches!(item.0, Chunk::Cel(_)) {
                            groups.push(vec![item]);
                        } else {
                            groups.last_mut().unwrap().push(item);
                        }
                    }
                    groups.shuffle(r);
                    let flatg: Vec<(Chunk, u32)> = groups.into_iter().flatten().collect();
                    for (k, (c, pd)) in flatg.into_iter().enumerate() {
                        f.chunks[start + k] = c;
                        f.pads[start + k] = pd;
                    }
                }
            }
        }
        12 => {
            label = "padding that makes a chunk's data an exact multiple of 64 KiB (or one byte off)";
            q.normalize();
            let enc = crate::prog::encode(&q);
            let sizes: Vec<&Field> = enc.fields.iter().filter(|f| f.name.ends_with(".size")).collect();
            if let Some(f) = sizes.choose(r) {
                // name = f<frame>.c<chunk>.<kind>.size ; value = 6 + data length
                let parts: Vec<&str> = f.name.split('.').collect();
                let fi: usize = parts[0][1..].parse().unwrap_or(0);
                let ci: usize = parts[1][1..].parse().unwrap_or(0);
                let cur = read_le(&enc.bytes, f.off, 4) as i64 - 6;
                let k = r.gen_range(1..=2i64);
                let target = 65536 * k + *[0i64, 0, 0, -1, 1].choose(r).unwrap();
                let ok_kind = fi < q.frames.len() && ci < q.frames[fi].chunks.len() && !matches!(q.frames[fi].chunks[ci], Chunk::Raw(_));
                if ok_kind && target > cur {
                    let had = q.frames[fi].pads[ci] as i64;
                    q.frames[fi].pads[ci] = (had + target - cur) as u32;
                }
            }
        }
        _ => {
            label = "all choices at once";
            let mut cur = q.clone();
            for w in [0usize, 1, 2, 4, 5, 6, 7, 9] {
                if r.gen_bool(0.7) {
                    cur = variant(r, &cur, w).0;
                }
            }
            q = cur;
        }
    }
    q.normalize();
    (q, label.to_string())
}

fn case(id: String, p: &Program, mode: &str, meta: Value) -> Value {
    json!({"id": id, "prog": p, "mode": mode, "meta": meta})
}

/// gen --profile P --seed S --n N [--variants K] [--twice] --out file
pub fn gen_cmd(args: &[String]) {
    let profile = arg(args, "--profile").unwrap_or("default");
    let seed: u64 = arg(args, "--seed").and_then(|s| s.parse().ok()).unwrap_or(1);
    let n: usize = arg(args, "--n").and_then(|s| s.parse().ok()).unwrap_or(10);
    let nvar: usize = arg(args, "--variants").and_then(|s| s.parse().ok()).unwrap_or(0);
    let twice = crate::flag(args, "--twice");
    // --stored: all zlib data as stored deflate blocks (decodable by the TLA+ byte-level decoder)
    let stored = crate::flag(args, "--stored");
    DECODABLE.with(|c| c.set(stored));
    let mut out = Out::new(arg(args, "--out").unwrap_or("-"));
    let k = knobs(profile);
    let mut r = StdRng::seed_from_u64(seed ^ 0x5eed_0000);
    for i in 0..n {
        let mut p = gen_sprite(&mut r, &k);
        if stored {
            for f in &mut p.frames {
                for c in &mut f.chunks {
                    match c {
                        Chunk::Cel(c) => c.store = "stored".into(),
                        Chunk::Tileset(t) => t.store = "stored".into(),
                        _ => {}
                    }
                }
            }
        }
        let mut c = case(format!("g3-{}-{}-{}", profile, seed, i), &p, "full", json!({"gen": "g3", "profile": profile}));
        c["group"] = json!(format!("g3-{}-{}-{}", profile, seed, i));
        if twice {
            c["twice"] = json!(true);
        }
        out.ev(&c);
        for v in 0..nvar {
            let (q, label) = variant(&mut r, &p, v);
            let mut vc = case(format!("g3-{}-{}-{}-v{}", profile, seed, i, v), &q, "full", json!({"gen": "g3", "profile": profile, "variant_of": i, "choice": label}));
            vc["group"] = json!(format!("g3-{}-{}-{}", profile, seed, i));
            out.ev(&vc);
        }
    }
    out.flush();
}

// ---------------------------------------------------------------------------------------
// G5: structured faults

fn boundary_values(width: usize, cur: u64) -> Vec<u64> {
    let max: u64 = match width {
        1 => 0xFF,
        2 => 0xFFFF,
        _ => 0xFFFF_FFFF,
    };
    let mut v = vec![0, 1, 2, cur.wrapping_sub(1) & max, (cur + 1) & max, (cur * 2) & max, max, max - 1, max / 2, max / 2 + 1];
    match width {
        1 => v.extend([3, 4, 19, 32, 63, 64, 127, 128]),
        2 => v.extend([3, 4, 8, 16, 19, 32, 255, 256, 0x7FFE, 0x8001]),
        _ => v.extend([3, 6, 15, 16, 17, 255, 256, 0xFFFF, 0x10000, 0x10001, 0x0100_0000, 0x0400_0000, 0x4000_0000]),
    }
    v.sort();
    v.dedup();
    v.retain(|x| *x != cur);
    v
}

fn read_le(b: &[u8], off: usize, width: usize) -> u64 {
    let mut v = 0u64;
    for i in 0..width {
        v |= (b[off + i] as u64) << (8 * i);
    }
    v
}

/// faults --in cases.ndjson --kind fields|pairs|havoc|cuts --seed S [--n N] --out file
/// fields: every field of the encoder's field table x every boundary value (one fault per case)
/// pairs : random pairs of field faults
/// havoc : byte-level mutation (flip/set/insert/delete/splice)
/// cuts  : every strict prefix up to the end of the last frame
pub fn faults_cmd(args: &[String]) {
    let input = arg(args, "--in").unwrap_or("-");
    let kind = arg(args, "--kind").unwrap_or("fields");
    let seed: u64 = arg(args, "--seed").and_then(|s| s.parse().ok()).unwrap_or(1);
    let n: usize = arg(args, "--n").and_then(|s| s.parse().ok()).unwrap_or(100);
    let mode = arg(args, "--mode").unwrap_or("light");
    let classes: Option<Vec<&str>> = arg(args, "--classes").map(|c| c.split(',').collect());
    // --only <prefix>: restrict field faults to fields whose name starts with the prefix (e.g. "hdr.")
    let only: Option<&str> = arg(args, "--only");
    let maxfields: usize = arg(args, "--maxfields").and_then(|s| s.parse().ok()).unwrap_or(500);
    let mut out = Out::new(arg(args, "--out").unwrap_or("-"));
    let mut r = StdRng::seed_from_u64(seed ^ 0xfa17);
    let mut all: Vec<(Value, Vec<u8>)> = vec![];
    for line in read_lines(input) {
        if line.trim().is_empty() {
            continue;
        }
        let c: Value = serde_json::from_str(&line).unwrap();
        let (bytes, _, enc) = crate::drivers::case_bytes(&c);
        let id = c["id"].as_str().unwrap_or("?").to_string();
        match kind {
            "fields" => {
                let enc = enc.expect("fields faults need a program");
                // sprites with hundreds of entities have thousands of fields: all header and frame-header fields, and a
                // seeded sample of the chunk fields (cap per sprite), so that the campaign's size stays proportional to
                // the number of seeds
                let chunk_fields: Vec<usize> = enc.fields.iter().enumerate().filter(|(_, f)| f.name.split('.').nth(1).map_or(false, |s| s.starts_with('c'))).map(|(i, _)| i).collect();
                let mut keep: std::collections::HashSet<usize> = chunk_fields.iter().copied().collect();
                if chunk_fields.len() > maxfields {
                    keep = chunk_fields.choose_multiple(&mut r, maxfields).copied().collect();
                }
                for (fi, f) in enc.fields.iter().enumerate() {
                    if f.width == 0 {
                        continue;
                    }
                    if f.name.split('.').nth(1).map_or(false, |s| s.starts_with('c')) && !keep.contains(&fi) {
                        continue;
                    }
                    if let Some(pfx) = only {
                        if !f.name.starts_with(pfx) {
                            continue;
                        }
                    }
                    if let Some(cl) = &classes {
                        if !cl.contains(&f.class) {
                            continue;
                        }
                    }
                    let cur = read_le(&bytes, f.off, f.width);
                    for v in boundary_values(f.width, cur) {
                        let patch: Vec<u8> = (0..f.width).map(|i| ((v >> (8 * i)) & 0xFF) as u8).collect();
                        let meta = json!({"gen": "g5a", "field": f.name, "class": f.class, "value": v.to_string(), "was": cur.to_string(), "inflated": v > cur});
                        if mode != "full" {
                            // compact form: the patched bytes themselves (only mode "full" needs the program for chunk events)
                            let mut b = bytes.clone();
                            for (i, x) in patch.iter().enumerate() {
                                if f.off + i < b.len() {
                                    b[f.off + i] = *x;
                                }
                            }
                            out.ev(&json!({"id": format!("{}|{}={}", id, f.name, v), "mode": mode, "hex": hex_encode(&b), "meta": meta}));
                        } else {
                            let mut cc = c.clone();
                            cc["id"] = json!(format!("{}|{}={}", id, f.name, v));
                            cc["mode"] = json!(mode);
                            cc["patch"] = json!([{"off": f.off, "bytes": patch}]);
                            cc["meta"] = meta;
                            out.ev(&cc);
                        }
                    }
                }
            }
            "pairs" => {
                let enc = enc.expect("pairs faults need a program");
                let fields: Vec<&Field> = enc.fields.iter().filter(|f| f.width > 0).collect();
                for k in 0..n {
                    let mut patches = vec![];
                    let mut names = vec![];
                    for _ in 0..2 {
                        let f = fields.choose(&mut r).unwrap();
                        let cur = read_le(&bytes, f.off, f.width);
                        let v = *boundary_values(f.width, cur).choose(&mut r).unwrap();
                        let patch: Vec<u8> = (0..f.width).map(|i| ((v >> (8 * i)) & 0xFF) as u8).collect();
                        patches.push(json!({"off": f.off, "bytes": patch}));
                        names.push(format!("{}={}", f.name, v));
                    }
                    let mut cc = c.clone();
                    cc["id"] = json!(format!("{}|pair{}|{}", id, k, names.join("&")));
                    cc["mode"] = json!(mode);
                    cc["patch"] = json!(patches);
                    cc["meta"] = json!({"gen": "g5a2", "fields": names});
                    out.ev(&cc);
                }
            }
            "framepairs" => {
                // multi-field: the frame's byte budget set to its maximum together with each chunk size boundary value
                let enc = enc.expect("framepairs faults need a program");
                let nb: Vec<&Field> = enc.fields.iter().filter(|f| f.name.ends_with(".nbytes")).collect();
                // ... and together with the frame's own chunk counts (the budget bounds what a count can make the loader do)
                let mut cands: Vec<&Field> = enc.fields.iter().filter(|f| f.name.ends_with(".size") || f.name.ends_with(".oldn") || f.name.ends_with(".newn")).collect();
                if cands.len() > 60 {
                    let counts: Vec<&Field> = cands.iter().copied().filter(|f| !f.name.ends_with(".size")).take(20).collect();
                    let mut sizes: Vec<&Field> = cands.iter().copied().filter(|f| f.name.ends_with(".size")).collect();
                    sizes.shuffle(&mut r);
                    sizes.truncate(40);
                    cands = counts.into_iter().chain(sizes).collect();
                }
                for f in cands {
                    let frame = f.name.split('.').next().unwrap_or("");
                    let Some(fb) = nb.iter().find(|x| x.name == format!("{}.nbytes", frame)) else { continue };
                    let cur = read_le(&bytes, f.off, f.width);
                    for v in boundary_values(f.width, cur) {
                        for fv in [0xFFFF_FFFFu32, 0x7FFF_FFFF] {
                            let meta = json!({"gen": "g5a2", "fields": [fb.name, f.name], "values": [fv.to_string(), v.to_string()]});
                            let cid = format!("{}|{}={}&{}={}", id, fb.name, fv, f.name, v);
                            if mode != "full" {
                                let mut b = bytes.clone();
                                b[fb.off..fb.off + 4].copy_from_slice(&fv.to_le_bytes());
                                b[f.off..f.off + f.width].copy_from_slice(&(v as u32).to_le_bytes()[..f.width]);
                                out.ev(&json!({"id": cid, "mode": mode, "hex": hex_encode(&b), "meta": meta}));
                            } else {
                                let mut cc = c.clone();
                                cc["id"] = json!(cid);
                                cc["mode"] = json!(mode);
                                cc["patch"] = json!([{"off": fb.off, "bytes": fv.to_le_bytes()}, {"off": f.off, "bytes": (v as u32).to_le_bytes()[..f.width]}]);
                                cc["meta"] = meta;
                                out.ev(&cc);
                            }
                        }
                    }
                }
            }
            "kindwide" => {
                // the same inflated value in EVERY chunk of one kind at once (one field, or two fields of that kind together):
                // effects that stay within budget for one chunk add up over several
                let enc = enc.expect("kindwide faults need a program");
                let mut groups: std::collections::BTreeMap<(String, String), Vec<&Field>> = Default::default();
                for f in enc.fields.iter().filter(|f| f.width > 0 && matches!(f.class, "dim" | "size" | "count" | "len")) {
                    let parts: Vec<&str> = f.name.split('.').collect();
                    if parts.len() >= 4 && parts[1].starts_with('c') {
                        // cels of one storage kind, layers of one type: the kind is refined by the chunk's own type field
                        let prefix = parts[..3].join(".");
                        let variant = enc.fields.iter().find(|g| g.name == format!("{}.ctype", prefix) || g.name == format!("{}.ltype", prefix))
                            .map_or(String::new(), |g| format!("#{}", read_le(&bytes, g.off, g.width)));
                        groups.entry((format!("{}{}", parts[2], variant), parts[3..].join("."))).or_default().push(f);
                    }
                }
                let kinds: std::collections::BTreeSet<String> = groups.keys().map(|k| k.0.clone()).collect();
                for kind in kinds {
                    let sufs: Vec<&(String, String)> = groups.keys().filter(|k| k.0 == kind).collect();
                    let mut sets: Vec<Vec<&(String, String)>> = sufs.iter().map(|s| vec![*s]).collect();
                    for i in 0..sufs.len() {
                        for j in (i + 1)..sufs.len() {
                            sets.push(vec![sufs[i], sufs[j]]);
                        }
                    }
                    sets.truncate(40);
                    for set in sets {
                        for vi in 0..3 {
                            let mut b = bytes.clone();
                            let mut names = vec![];
                            for key in &set {
                                for f in &groups[*key] {
                                    let max: u64 = if f.width == 1 { 0xFF } else if f.width == 2 { 0xFFFF } else { 0xFFFF_FFFF };
                                    let v = [max, max / 2 + 1, if f.width >= 2 { 4096 } else { 64 }][vi];
                                    for i in 0..f.width {
                                        if f.off + i < b.len() {
                                            b[f.off + i] = ((v >> (8 * i)) & 0xFF) as u8;
                                        }
                                    }
                                }
                                names.push(format!("{}.{}", key.0, key.1));
                            }
                            let meta = json!({"gen": "g5a3", "fields": names, "value_index": vi, "instances": groups[set[0]].len()});
                            out.ev(&json!({"id": format!("{}|all:{}#{}", id, names.join("&"), vi), "mode": mode, "hex": hex_encode(&b), "meta": meta}));
                        }
                    }
                }
            }
            "cuts" => {
                let eof = enc.as_ref().map_or(bytes.len(), |e| e.end_of_frames);
                out.ev(&json!({"id": id, "hex": hex_encode(&bytes), "eof": eof}));
            }
            _ => all.push((c, bytes)),
        }
    }
    if kind == "havoc" {
        if all.is_empty() {
            return;
        }
        for k in 0..n {
            let (c, bytes) = all.choose(&mut r).unwrap();
            let mut b = bytes.clone();
            let nm = 1 + r.gen_range(0..4) * r.gen_range(0..3);
            let mut desc = vec![];
            for _ in 0..nm {
                if b.is_empty() {
                    break;
                }
                let pos = if r.gen_bool(0.3) { r.gen_range(0..b.len().min(200)) } else { r.gen_range(0..b.len()) };
                match r.gen_range(0..8) {
                    0 => {
                        b[pos] ^= 1 << r.gen_range(0..8);
                        desc.push(format!("flip@{}", pos));
                    }
                    1 => {
                        b[pos] = *[0u8, 1, 0x7f, 0x80, 0xff, 0xfe].choose(&mut r).unwrap();
                        desc.push(format!("set@{}", pos));
                    }
                    2 => {
                        b[pos] = r.gen();
                        desc.push(format!("rand@{}", pos));
                    }
                    3 => {
                        let len = r.gen_range(1..=4).min(b.len() - pos);
                        for i in 0..len {
                            b[pos + i] = 0xff;
                        }
                        desc.push(format!("ff{}@{}", len, pos));
                    }
                    4 => {
                        let len = r.gen_range(1..=8).min(b.len() - pos);
                        b.drain(pos..pos + len);
                        desc.push(format!("del{}@{}", len, pos));
                    }
                    5 => {
                        let len = r.gen_range(1..=8);
                        for _ in 0..len {
                            b.insert(pos, r.gen());
                        }
                        desc.push(format!("ins{}@{}", len, pos));
                    }
                    6 => {
                        // splice a window from another seed file
                        let (_, other) = all.choose(&mut r).unwrap();
                        if other.len() > 130 {
                            let s = r.gen_range(128..other.len());
                            let len = r.gen_range(1..=64).min(other.len() - s).min(b.len() - pos);
                            b[pos..pos + len].copy_from_slice(&other[s..s + len]);
                            desc.push(format!("splice{}@{}", len, pos));
                        }
                    }
                    _ => {
                        let len = r.gen_range(2..=4).min(b.len() - pos);
                        let v: u32 = *[0u32, 1, 0xffff, 0x10000, 0x7fffffff, 0x80000000, 0xffffffff].choose(&mut r).unwrap();
                        for i in 0..len {
                            b[pos + i] = ((v >> (8 * i)) & 0xff) as u8;
                        }
                        desc.push(format!("int{}@{}", len, pos));
                    }
                }
            }
            out.ev(&json!({"id": format!("{}|havoc{}-{}", c["id"].as_str().unwrap_or("?"), seed, k), "hex": hex_encode(&b), "mode": mode,
                "meta": {"gen": "g5b", "mutations": desc}}));
        }
    }
    out.flush();
}
