//! Projection of the public API of a loaded sprite to the canonical observation JSON
//! (DESIGN.md Appendix C). No expected values are computed here: every field is the
//! verbatim result of a public accessor (images with alpha-0 pixels normalised).
use asefile::*;
use image::RgbaImage;
use serde_json::{json, Value};
use std::panic::{catch_unwind, AssertUnwindSafe};

pub fn bytes(s: &str) -> Value {
    Value::Array(s.as_bytes().iter().map(|b| json!(*b)).collect())
}

pub fn u32n(v: u32) -> Value {
    if v >= (1u32 << 31) {
        json!(v.to_string())
    } else {
        json!(v)
    }
}

fn ud(u: Option<&UserData>) -> Value {
    match u {
        None => json!([]),
        Some(u) => json!([{
            "text": u.text.as_ref().map_or(json!([]), |t| json!([bytes(t)])),
            "color": u.color.map_or(json!([]), |c| json!([c.0])),
        }]),
    }
}

pub fn canon_px(img: &RgbaImage) -> Vec<[u8; 4]> {
    img.pixels().map(|p| if p.0[3] == 0 { [0, 0, 0, 0] } else { p.0 }).collect()
}

pub fn fnv(px: &[[u8; 4]], w: u32, h: u32) -> String {
    let mut x: u64 = 0xcbf29ce484222325;
    let mut feed = |b: u8| {
        x ^= b as u64;
        x = x.wrapping_mul(0x100000001b3);
    };
    for b in w.to_le_bytes().iter().chain(h.to_le_bytes().iter()) {
        feed(*b);
    }
    for p in px {
        for b in p {
            feed(*b);
        }
    }
    format!("{:016x}", x)
}

pub fn image_full(img: &RgbaImage) -> Value {
    let px = canon_px(img);
    json!({"w": img.width(), "h": img.height(), "px": px})
}
pub fn image_dig(img: &RgbaImage) -> String {
    let px = canon_px(img);
    fnv(&px, img.width(), img.height())
}

pub struct Sweep {
    pub panics: Vec<Value>,
}
impl Sweep {
    pub fn guard<T>(&mut self, at: &str, f: impl FnOnce() -> T) -> Option<T> {
        crate::PANIC_INFO.with(|p| p.borrow_mut().take());
        match catch_unwind(AssertUnwindSafe(f)) {
            Ok(v) => Some(v),
            Err(_) => {
                let info = crate::PANIC_INFO.with(|p| p.borrow_mut().take()).unwrap_or_default();
                self.panics.push(json!({"at": at, "msg": info}));
                None
            }
        }
    }
}

fn cel_facts(c: &Cel, with_dig: bool) -> Value {
    let (x, y) = c.top_left();
    let mut v = json!({
        "f": c.frame(), "l": c.layer(), "empty": c.is_empty(), "x": x, "y": y,
        "tilemap": c.is_tilemap(), "ud": ud(c.user_data()),
    });
    if with_dig {
        v["dig"] = json!(image_dig(&c.image()));
    }
    v
}

// "the same entity" is decided by VALUE (everything the public API reports about it), never by address: whether two
// access paths hand out the same object or equal copies is not something any property speaks about.
fn tag_val(t: &asefile::Tag) -> Value {
    json!([t.name(), t.from_frame(), t.to_frame(), t.animation_direction() as u32, t.repeat().map(|r| r.get()), ud(t.user_data())])
}
fn extfile_val(f: &asefile::ExternalFile) -> Value {
    json!([f.id().value(), f.name()])
}
fn tileset_val(t: &Tileset) -> Value {
    json!([t.id(), t.tile_count(), t.tile_size().width(), t.tile_size().height(), t.base_index(), t.name(), t.empty_tile_is_id_zero(),
        t.external_file().map(|e| (e.external_file_id().value(), e.tileset_id()))])
}

pub struct Limits {
    /// emit pixel arrays (otherwise only digests and dimensions)
    pub pixels: bool,
    pub max_canvas: usize,
    pub max_cels: usize,
}

fn sample_idx(n: u32, cap: usize) -> Vec<u32> {
    if (n as usize) <= cap {
        (0..n).collect()
    } else {
        let mut v: Vec<u32> = (0..(cap as u32 / 2)).collect();
        v.extend((n - cap as u32 / 2)..n);
        v
    }
}

/// Adversarial call order on a freshly loaded sprite (deepest / last entities first, rendering before metadata): an
/// immutable value answers the same afterwards. Results are discarded; panics are swallowed (the sweep will meet them).
pub fn perturb(ase: &AsepriteFile, lim: &Limits) {
    let q = |f: &mut dyn FnMut()| {
        let _ = std::panic::catch_unwind(std::panic::AssertUnwindSafe(f));
        crate::PANIC_INFO.with(|p| p.borrow_mut().take());
    };
    let (nl, nf) = (ase.num_layers(), ase.num_frames());
    let render = ase.width() * ase.height() <= lim.max_canvas;
    if render {
        for f in (0..nf.min(4)).rev() {
            q(&mut || {
                let _ = ase.frame(f).image();
            });
        }
    }
    for i in (nl.saturating_sub(512)..nl).rev() {
        q(&mut || {
            let l = ase.layer(i);
            let _ = l.is_visible();
            let _ = l.parent().map(|p| p.id());
        });
    }
    for f in (0..nf.min(4)).rev() {
        for l in (0..nl.min(8)).rev() {
            q(&mut || {
                let c = ase.cel(f, l);
                let _ = (c.is_empty(), c.top_left(), c.user_data().is_some());
                if render {
                    let _ = c.image();
                }
                let _ = ase.tilemap(l, f).map(|t| (t.width(), t.tile(0, 0).id()));
            });
        }
    }
    q(&mut || {
        let _ = ase.layers().last().map(|l| l.id());
        let _ = ase.palette().map(|p| p.num_colors());
    });
}

/// Full observation of a loaded sprite. Every accessor group runs under a panic guard;
/// `panics` lists the accessors that did not return normally.
pub fn observe(ase: &AsepriteFile, lim: &Limits) -> Value {
    let mut sw = Sweep { panics: vec![] };
    let mut o = serde_json::Map::new();
    let (w, h) = (ase.width(), ase.height());
    let nf = ase.num_frames();
    let nl = ase.num_layers();
    o.insert("w".into(), json!(w));
    o.insert("h".into(), json!(h));
    o.insert("size".into(), json!([ase.size().0, ase.size().1]));
    o.insert("nframes".into(), json!(nf));
    o.insert("nlayers".into(), json!(nl));
    let fmt = match ase.pixel_format() {
        PixelFormat::Rgba => "rgba",
        PixelFormat::Grayscale => "gray",
        PixelFormat::Indexed { .. } => "indexed",
    };
    o.insert("fmt".into(), json!(fmt));
    o.insert("bpp".into(), json!(ase.pixel_format().bytes_per_pixel()));
    o.insert("tidx".into(), ase.transparent_color_index().map_or(json!([]), |t| json!([t])));
    o.insert("tidx2".into(), ase.pixel_format().transparent_color_index().map_or(json!([]), |t| json!([t])));
    o.insert("indexed".into(), json!(ase.is_indexed_color()));
    let render_ok = w * h <= lim.max_canvas;
    o.insert("render_ok".into(), json!(render_ok));

    let frames_s = sample_idx(nf, lim.max_cels);
    let layers_s = sample_idx(nl, lim.max_cels);

    // durations (all frames; cheap)
    if let Some(d) = sw.guard("frame.duration", || (0..nf).map(|f| ase.frame(f).duration()).collect::<Vec<_>>()) {
        o.insert("durations".into(), json!(d));
    }
    if let Some(d) = sw.guard("frame.id", || (0..nf).map(|f| ase.frame(f).id()).collect::<Vec<_>>()) {
        o.insert("frame_ids".into(), json!(d));
    }

    // layers
    if let Some(ls) = sw.guard("layers", || {
        (0..nl)
            .map(|i| {
                let l = ase.layer(i);
                let (lt, ts) = match l.layer_type() {
                    LayerType::Image => (0, json!([])),
                    LayerType::Group => (1, json!([])),
                    LayerType::Tilemap(t) => (2, json!([t.to_string()])),
                };
                json!({
                    "id": l.id(), "name": bytes(l.name()), "flags": l.flags().bits(),
                    "blend": l.blend_mode() as u32, "opacity": l.opacity(), "ltype": lt, "tileset": ts,
                    "is_tilemap": l.is_tilemap(), "ud": ud(l.user_data()),
                    "parent": l.parent().map_or(json!([]), |p| json!([p.id()])),
                })
            })
            .collect::<Vec<_>>()
    }) {
        o.insert("layers".into(), json!(ls));
    }
    // visibility separately (recursive walk: stack overflow candidates are process-level)
    if nl <= 4096 {
        if let Some(v) = sw.guard("layer.is_visible", || (0..nl).map(|i| ase.layer(i).is_visible()).collect::<Vec<_>>()) {
            o.insert("visible".into(), json!(v));
        }
    } else {
        // very many layers: the walk is O(depth) per layer, so only a sample (incl. the last = deepest ones) is taken
        let ids: Vec<u32> = (0..64).chain((nl / 2)..(nl / 2 + 8)).chain((nl - 64)..nl).collect();
        if let Some(v) = sw.guard("layer.is_visible", || ids.iter().map(|i| (*i, ase.layer(*i).is_visible())).collect::<Vec<_>>()) {
            o.insert("visible_sample".into(), json!(v));
        }
    }
    if let Some(v) = sw.guard("layers.iter", || ase.layers().map(|l| l.id()).collect::<Vec<_>>()) {
        o.insert("iter_ids".into(), json!(v));
    }
    // the iterator protocol: the adapters std builds on `nth` / `size_hint` must see the same sequence as plain `next()`
    if let Some(v) = sw.guard("layers.iter", || {
        let cap = 48usize;
        let ids = |it: &mut dyn Iterator<Item = asefile::Layer>| it.take(cap).map(|l| l.id()).collect::<Vec<u32>>();
        let mut after_nth = ase.layers();
        let nth1 = after_nth.nth(1).map(|l| l.id());
        let rest = ids(&mut after_nth);
        let (lo, hi) = ase.layers().size_hint();
        let next_then_max = {
            let mut it = ase.layers();
            let _ = it.next();
            it.nth(u32::MAX as usize).is_none() && it.next().is_none()
        };
        json!({
            "skip1": ids(&mut ase.layers().skip(1)),
            "skip_last2": ids(&mut ase.layers().skip((nl as usize).saturating_sub(2))),
            "step2": ids(&mut ase.layers().step_by(2)),
            "step3": ids(&mut ase.layers().step_by(3)),
            "nth1": nth1.map_or(json!([]), |i| json!([i])),
            "after_nth1": rest,
            "nth_len_none": ase.layers().nth(nl as usize).is_none(),
            "nth_max_none": ase.layers().nth(usize::MAX).is_none() && ase.layers().skip(usize::MAX).next().is_none(),
            "next_then_nth_max_none": next_then_max,
            "count": ase.layers().count(),
            "last": ase.layers().last().map_or(json!([]), |l| json!([l.id()])),
            "size_hint_ok": lo <= nl as usize && hi.map_or(true, |h| h >= nl as usize),
            "zip_names": ase.layers().zip(0..nl).take(cap).all(|(l, i)| l.id() == i),
        })
    }) {
        o.insert("iter_protocol".into(), v);
    }
    if let Some(v) = sw.guard("layer_by_name", || {
        let mut names: Vec<String> = (0..nl).map(|i| ase.layer(i).name().to_string()).collect();
        names.sort();
        names.dedup();
        names.truncate(64);
        names.push("\u{1}absent".into());
        names
            .iter()
            .map(|q| json!({"q": bytes(q), "hit": ase.layer_by_name(q).map_or(json!([]), |l| json!([l.id()]))}))
            .collect::<Vec<_>>()
    }) {
        o.insert("by_name".into(), json!(v));
    }

    // tags
    let nt = ase.num_tags();
    o.insert("ntags".into(), json!(nt));
    if let Some(v) = sw.guard("tags", || {
        (0..nt)
            .map(|i| {
                let t = ase.tag(i);
                let same = ase.get_tag(i).map_or(false, |g| tag_val(g) == tag_val(t));
                json!({
                    "name": bytes(t.name()), "from": t.from_frame(), "to": t.to_frame(),
                    "dir": t.animation_direction() as u32,
                    "repeat": t.repeat().map_or(json!([]), |r| json!([r.get()])),
                    "ud": ud(t.user_data()), "get_same": same,
                })
            })
            .collect::<Vec<_>>()
    }) {
        o.insert("tags".into(), json!(v));
    }
    o.insert("tag_oob_none".into(), json!(ase.get_tag(nt).is_none() && ase.get_tag(u32::MAX).is_none()));
    if let Some(v) = sw.guard("tag_by_name", || {
        let mut names: Vec<String> = (0..nt).map(|i| ase.tag(i).name().to_string()).collect();
        names.sort();
        names.dedup();
        names.truncate(64);
        names.push("\u{1}absent".into());
        names
            .iter()
            .map(|q| {
                // the lowest index whose tag is indistinguishable from the one returned
                let hit = ase.tag_by_name(q).and_then(|t| (0..nt).find(|i| tag_val(ase.tag(*i)) == tag_val(t)));
                json!({"q": bytes(q), "hit": hit.map_or(json!([]), |i| json!([i]))})
            })
            .collect::<Vec<_>>()
    }) {
        o.insert("tag_by_name".into(), json!(v));
    }

    // slices
    if let Some(v) = sw.guard("slices", || {
        ase.slices()
            .iter()
            .map(|s| {
                let keys: Vec<Value> = s
                    .keys
                    .iter()
                    .map(|k| {
                        json!({
                            "frame": k.from_frame.to_string(),
                            "x": k.origin.0.to_string(), "y": k.origin.1.to_string(),
                            "w": k.size.0.to_string(), "h": k.size.1.to_string(),
                            "s9": k.slice9.as_ref().map_or(json!([]), |s| json!([{
                                "cx": s.center_x.to_string(), "cy": s.center_y.to_string(),
                                "cw": s.center_width.to_string(), "ch": s.center_height.to_string()}])),
                            "pivot": k.pivot.map_or(json!([]), |p| json!([{"x": p.0.to_string(), "y": p.1.to_string()}])),
                        })
                    })
                    .collect();
                json!({"name": bytes(&s.name), "keys": keys, "ud": ud(s.user_data.as_ref())})
            })
            .collect::<Vec<_>>()
    }) {
        o.insert("slices".into(), json!(v));
    }

    // palette
    if let Some(v) = sw.guard("palette", || match ase.palette() {
        None => json!([]),
        Some(p) => {
            // ColorPalette exposes no iterator; ids are probed over 0..=max_probe and the
            // count must match num_colors (ids beyond the probe window are reported as missing).
            let n = p.num_colors();
            let mut es = vec![];
            let mut id = 0u32;
            let limit = 70000u32;
            while (es.len() as u32) < n && id < limit {
                if let Some(c) = p.color(id) {
                    es.push(json!({
                        "id": c.id(), "rgba": c.raw_rgba8(),
                        "chan": [c.red(), c.green(), c.blue(), c.alpha()],
                        "name": c.name().map_or(json!([]), |s| json!([bytes(s)])),
                    }));
                }
                id += 1;
            }
            json!([{ "count": n, "entries": es, "probe_absent": p.color(u32::MAX).is_none() }])
        }
    }) {
        o.insert("palette".into(), v);
    }

    // external files
    if let Some(v) = sw.guard("external_files", || {
        let mut es: Vec<(u32, Value)> = ase
            .external_files()
            .map()
            .iter()
            .map(|(id, f)| {
                let same = ase.external_file_by_id(id).map_or(false, |g| extfile_val(g) == extfile_val(f))
                    && ase.external_files().get(id).map_or(false, |g| extfile_val(g) == extfile_val(f));
                (id.value(), json!({"id": id.value().to_string(), "id2": f.id().value().to_string(), "name": bytes(f.name()), "get_same": same}))
            })
            .collect();
        es.sort_by_key(|e| e.0);
        es.into_iter().map(|e| e.1).collect::<Vec<_>>()
    }) {
        o.insert("extfiles".into(), json!(v));
    }

    // tilesets
    if let Some(v) = sw.guard("tilesets", || {
        let mut ts: Vec<&Tileset> = ase.tilesets().iter().collect();
        ts.sort_by_key(|t| t.id());
        ts.iter()
            .map(|t| {
                let same = ase.tilesets().get(t.id()).map_or(false, |g| tileset_val(g) == tileset_val(t));
                json!({
                    "id": t.id().to_string(), "count": u32n(t.tile_count()),
                    "tw": t.tile_size().width(), "th": t.tile_size().height(),
                    "base": t.base_index(), "name": bytes(t.name()), "empty0": t.empty_tile_is_id_zero(),
                    "ext": t.external_file().map_or(json!([]), |e| json!([{
                        "file": e.external_file_id().value().to_string(), "ts": e.tileset_id().to_string()}])),
                    "get_same": same,
                })
            })
            .collect::<Vec<_>>()
    }) {
        o.insert("tilesets".into(), json!(v));
        o.insert("ntilesets".into(), json!(ase.tilesets().len()));
        o.insert("tilesets_empty".into(), json!(ase.tilesets().is_empty()));
    }
    // tileset images
    {
        let mut ids: Vec<u32> = ase.tilesets().iter().map(|t| t.id()).collect();
        ids.sort();
        let mut out = vec![];
        for id in ids {
            let t = ase.tilesets().get(id).unwrap();
            let tw = t.tile_size().width() as u64;
            let th = t.tile_size().height() as u64;
            let cnt = t.tile_count() as u64;
            if tw * th * cnt > lim.max_canvas as u64 {
                continue;
            }
            let full = sw.guard("tileset.image", || t.image());
            let tiles_s = sample_idx(t.tile_count(), lim.max_cels);
            let tiles = sw.guard("tileset.tile_image", || tiles_s.iter().map(|i| (*i, t.tile_image(*i))).collect::<Vec<_>>());
            let mut e = json!({"id": id.to_string()});
            if let Some(img) = full {
                e["image"] = if lim.pixels { image_full(&img) } else { json!({"w": img.width(), "h": img.height(), "dig": image_dig(&img)}) };
            }
            if let Some(tiles) = tiles {
                e["tiles"] = tiles
                    .iter()
                    .map(|(i, img)| {
                        if lim.pixels {
                            let mut v = image_full(img);
                            v["i"] = json!(i);
                            v
                        } else {
                            json!({"i": i, "w": img.width(), "h": img.height(), "dig": image_dig(img)})
                        }
                    })
                    .collect();
            }
            out.push(e);
        }
        o.insert("tileset_images".into(), json!(out));
    }

    o.insert("sprite_ud".into(), ud(ase.sprite_user_data()));

    // cels by the three routes, cel images, frame images, tilemaps
    let mut cels = vec![];
    let mut tilemaps = vec![];
    for &f in &frames_s {
        for &l in &layers_s {
            let mut e = json!({"f": f, "l": l});
            if let Some(v) = sw.guard("frame().layer()", || cel_facts(&ase.frame(f).layer(l), render_ok)) {
                e["r1"] = v;
            }
            if let Some(v) = sw.guard("layer().frame()", || cel_facts(&ase.layer(l).frame(f), render_ok)) {
                e["r2"] = v;
            }
            if let Some(v) = sw.guard("cel()", || cel_facts(&ase.cel(f, l), render_ok)) {
                e["r3"] = v;
            }
            if render_ok && lim.pixels {
                if let Some(img) = sw.guard("cel.image", || ase.cel(f, l).image()) {
                    e["image"] = image_full(&img);
                }
            } else if render_ok {
                if let Some(img) = sw.guard("cel.image", || ase.cel(f, l).image()) {
                    e["image"] = json!({"w": img.width(), "h": img.height(), "dig": image_dig(&img)});
                }
            }
            let tm = sw.guard("tilemap()", || ase.tilemap(l, f));
            e["tm"] = json!(matches!(tm, Some(Some(_))));
            if let Some(Some(tm)) = tm {
                let mut t = json!({"l": l, "f": f});
                if let Some(v) = sw.guard("tilemap.dims", || {
                    let (tw, th) = tm.tile_size();
                    let (tox, toy) = tm.tile_offsets();
                    let (pox, poy) = tm.pixel_offsets();
                    json!({"w": tm.width(), "h": tm.height(), "tw": tw, "th": th, "tox": tox, "toy": toy,
                           "pox": pox, "poy": poy, "tsid": tm.tileset().id().to_string()})
                }) {
                    for (k, vv) in v.as_object().unwrap() {
                        t[k] = vv.clone();
                    }
                }
                let (gw, gh) = (tm.width().min(12), tm.height().min(12));
                let mut coords: Vec<(u32, u32)> = vec![];
                for y in 0..gh + 2 {
                    for x in 0..gw + 2 {
                        coords.push((x, y));
                    }
                }
                // the stored area can be much larger than the canvas grid (its size is not exposed): a coarse lattice over the
                // first 300 x 300 positions, dense around 256
                let lat = [3u32, 100, 254, 255, 256, 257, 258, 259, 299];
                for &y in &lat {
                    for &x in &[0u32, 1, 2, 255, 256, 257, 299] {
                        coords.push((x, y));
                        coords.push((y, x));
                    }
                }
                let big = [65535u32, 65536, (1 << 31) - 1, 1 << 31, u32::MAX - 2, u32::MAX];
                for &b in &big {
                    coords.push((b, 0));
                    coords.push((0, b));
                    coords.push((b, b));
                }
                let mut lookups = vec![];
                let mut biglookups = vec![];
                for (x, y) in coords {
                    if let Some(id) = sw.guard("tilemap.tile", || tm.tile(x, y).id()) {
                        if x > 100000 || y > 100000 {
                            biglookups.push(json!({"x": x.to_string(), "y": y.to_string(), "id": u32n(id)}));
                        } else {
                            lookups.push(json!({"x": x, "y": y, "id": u32n(id)}));
                        }
                    }
                }
                t["lookups"] = json!(lookups);
                t["biglookups"] = json!(biglookups);
                if render_ok {
                    if let Some(img) = sw.guard("tilemap.image", || tm.image()) {
                        t["dig"] = json!(image_dig(&img));
                        t["iw"] = json!(img.width());
                        t["ih"] = json!(img.height());
                    }
                }
                tilemaps.push(t);
            }
            cels.push(e);
        }
    }
    o.insert("cels".into(), json!(cels));
    o.insert("tilemaps".into(), json!(tilemaps));
    // out-of-range tilemap lookups are documented to return None
    o.insert(
        "tilemap_oob_none".into(),
        json!(sw.guard("tilemap(oob)", || ase.tilemap(nl, 0).is_none() && ase.tilemap(0, nf).is_none() && ase.tilemap(u32::MAX, u32::MAX).is_none())
            .unwrap_or(false)),
    );

    let mut frames = vec![];
    if render_ok {
        for &f in &frames_s {
            if let Some(img) = sw.guard("frame.image", || ase.frame(f).image()) {
                let mut e = if lim.pixels { image_full(&img) } else { json!({"w": img.width(), "h": img.height()}) };
                e["f"] = json!(f);
                e["dig"] = json!(image_dig(&img));
                frames.push(e);
            }
        }
    }
    o.insert("frames".into(), json!(frames));

    let dbg = sw.guard("Debug", || format!("{:?}", ase).len());
    o.insert("debug_ok".into(), json!(dbg.map_or(false, |n| n > 0)));
    o.insert("panics".into(), json!(sw.panics));
    Value::Object(o)
}
