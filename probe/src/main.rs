//! C16: (1) compile-time probe that AsepriteFile is Send + Sync, (2) thread driver: one shared
//! &AsepriteFile, up to 16 threads, each executing its own permutation (with repetitions) of
//! accessor calls; every result digest is logged with a per-thread sequence number.
#[path = "../../harness/src/observe.rs"]
#[allow(dead_code)]
mod observe;

use asefile::AsepriteFile;
use serde_json::{json, Value};
use std::cell::RefCell;
use std::io::{BufRead, Write};

thread_local! {
    pub static PANIC_INFO: RefCell<Option<String>> = const { RefCell::new(None) };
}

// ---- the type-level part of C16 ----
fn assert_send_sync<T: Send + Sync>() {}
#[allow(dead_code)]
fn sprite_is_send_and_sync() {
    assert_send_sync::<AsepriteFile>();
}

#[derive(Clone, Debug)]
enum Call {
    Obs,
    Frame(u32),
    Cel(u32, u32),
    Layer(u32),
    Debug,
}

fn eval(ase: &AsepriteFile, c: &Call) -> String {
    match c {
        Call::Obs => {
            let o = observe::observe(ase, &observe::Limits { pixels: false, max_canvas: 1 << 16, max_cels: 4 });
            format!("{:016x}", fxhash(o.to_string().as_bytes()))
        }
        Call::Frame(f) => observe::image_dig(&ase.frame(*f).image()),
        Call::Cel(f, l) => {
            let c = ase.cel(*f, *l);
            format!("{}:{:?}:{}:{:?}", observe::image_dig(&c.image()), c.top_left(), c.is_empty(), c.user_data())
        }
        Call::Layer(l) => {
            let y = ase.layer(*l);
            format!("{}:{:?}:{}:{:?}:{:?}:{}", y.name(), y.flags(), y.is_visible(), y.parent().map(|p| p.id()), y.blend_mode(), y.opacity())
        }
        Call::Debug => format!("{:016x}", fxhash(format!("{:?}", ase.layers().map(|l| l.id()).collect::<Vec<_>>()).as_bytes())),
    }
}

fn fxhash(b: &[u8]) -> u64 {
    let mut x: u64 = 0xcbf29ce484222325;
    for c in b {
        x ^= *c as u64;
        x = x.wrapping_mul(0x100000001b3);
    }
    x
}

fn hex_decode(s: &str) -> Vec<u8> {
    (0..s.len() / 2).map(|i| u8::from_str_radix(&s[2 * i..2 * i + 2], 16).unwrap_or(0)).collect()
}

fn main() {
    // input: lines {"id":..,"hex":..}; args: <nthreads> <rounds> <seed>
    let args: Vec<String> = std::env::args().collect();
    let nthreads: usize = args.get(1).and_then(|s| s.parse().ok()).unwrap_or(16);
    let rounds: usize = args.get(2).and_then(|s| s.parse().ok()).unwrap_or(3);
    let seed: u64 = args.get(3).and_then(|s| s.parse().ok()).unwrap_or(1);
    let stdin = std::io::stdin();
    let out = std::io::stdout();
    let mut out = std::io::BufWriter::new(out.lock());
    let mut files: Vec<(String, Vec<u8>)> = vec![];
    for line in stdin.lock().lines() {
        let line = line.unwrap();
        if line.trim().is_empty() {
            continue;
        }
        let c: Value = serde_json::from_str(&line).unwrap();
        let bytes = hex_decode(c["hex"].as_str().unwrap());
        if files.len() < 48 {
            files.push((c["id"].as_str().unwrap_or("?").to_string(), bytes.clone()));
        }
        let ase = match AsepriteFile::read(&bytes[..]) {
            Ok(a) => a,
            Err(_) => continue,
        };
        let mut calls = vec![Call::Obs, Call::Debug];
        for f in 0..ase.num_frames().min(4) {
            calls.push(Call::Frame(f));
            for l in 0..ase.num_layers().min(4) {
                calls.push(Call::Cel(f, l));
            }
        }
        for l in 0..ase.num_layers().min(6) {
            calls.push(Call::Layer(l));
        }
        // sequential baseline, then the same calls in reverse order and repeated
        let base: Vec<String> = calls.iter().map(|c| eval(&ase, c)).collect();
        let again: Vec<String> = calls.iter().rev().map(|c| eval(&ase, c)).collect::<Vec<_>>().into_iter().rev().collect();
        writeln!(out, "{}", json!({"ev": "baseline", "case": c["id"], "calls": calls.iter().map(|c| format!("{:?}", c)).collect::<Vec<_>>(), "results": base, "again": again})).unwrap();
        // threads: each executes its own pseudo-random permutation with repetitions
        let n = calls.len();
        let logs: Vec<Vec<(usize, String)>> = std::thread::scope(|s| {
            let hs: Vec<_> = (0..nthreads)
                .map(|t| {
                    let ase = &ase;
                    let calls = &calls;
                    s.spawn(move || {
                        let mut x = seed.wrapping_mul(6364136223846793005).wrapping_add((t as u64).wrapping_mul(1442695040888963407).wrapping_add(1));
                        let mut log = vec![];
                        for _ in 0..(rounds * n) {
                            x = x.wrapping_mul(6364136223846793005).wrapping_add(1442695040888963407);
                            let k = ((x >> 33) as usize) % n;
                            log.push((k, eval(ase, &calls[k])));
                        }
                        log
                    })
                })
                .collect();
            hs.into_iter().map(|h| h.join().unwrap()).collect()
        });
        for (t, log) in logs.iter().enumerate() {
            writeln!(out, "{}", json!({"ev": "thread", "thread": t, "calls": log.iter().map(|(k, _)| k + 1).collect::<Vec<_>>(), "results": log.iter().map(|(_, r)| r.clone()).collect::<Vec<_>>()})).unwrap();
        }
    }
    // loading is a function of the bytes: the same file loaded concurrently in several threads, while other threads load
    // OTHER files, reports what a sequential load reports (no parser state shared between loads)
    let load_obs = |b: &[u8]| -> String {
        match AsepriteFile::read(b) {
            Ok(a) => eval(&a, &Call::Obs),
            Err(e) => format!("err:{}", e),
        }
    };
    for (i, (id, bytes)) in files.iter().enumerate() {
        let base = load_obs(bytes);
        writeln!(out, "{}", json!({"ev": "baseline", "case": format!("{}|parallel-load", id), "calls": ["LoadObs"], "results": [base.clone()], "again": [load_obs(bytes)]})).unwrap();
        let reporters = (nthreads / 2).max(1);
        let logs: Vec<Vec<String>> = std::thread::scope(|s| {
            let hs: Vec<_> = (0..nthreads)
                .map(|t| {
                    let files = &files;
                    let load_obs = &load_obs;
                    s.spawn(move || {
                        let mut log = vec![];
                        for r in 0..rounds {
                            if t < reporters {
                                log.push(load_obs(bytes));
                            } else {
                                let _ = load_obs(&files[(i + 1 + t + r * 7) % files.len()].1);
                            }
                        }
                        log
                    })
                })
                .collect();
            hs.into_iter().map(|h| h.join().unwrap()).collect()
        });
        for (t, log) in logs.iter().enumerate().filter(|(_, l)| !l.is_empty()) {
            writeln!(out, "{}", json!({"ev": "thread", "thread": t, "calls": log.iter().map(|_| 1).collect::<Vec<_>>(), "results": log})).unwrap();
        }
    }
    out.flush().unwrap();
}
