-------------------------------- MODULE AseRead --------------------------------
(* The byte reader: how the loader consumes a std::io::Read (C13, C14).         *)
(* A file determines a list of requests `reqs` (the sizes of the successive     *)
(* read_exact calls: 21 header fields, 6 per frame header, 2 + body per chunk). *)
(* The environment is the reader: each read(len) call returns                   *)
(*    n > 0  : n bytes delivered, n <= len (short reads allowed)                *)
(*    0      : end of input                                                     *)
(*   -1      : ErrorKind::Interrupted (read_exact retries)                      *)
(*   <= -2   : a hard I/O error of some kind                                    *)
(* Step is std's read_exact loop composed with the loader's request sequence.   *)
EXTENDS Integers, Sequences

Interrupted == -1
HardErrors == -8..-2

RECURSIVE SumTo(_, _)
SumTo(s, n) == IF n = 0 THEN 0 ELSE s[n] + SumTo(s, n - 1)
Needed(reqs) == SumTo(reqs, Len(reqs))

InitSt(reqs, avail) ==
  [reqs |-> reqs, avail |-> avail, ri |-> 1, need |-> IF reqs = <<>> THEN 0 ELSE reqs[1], pos |-> 0,
   result |-> IF reqs = <<>> THEN "ok" ELSE "running", kind |-> 0, bad |-> ""]

\* the loader issues read(len) and the reader answers ret
Step(st, len, ret) ==
  IF st.bad # "" THEN st
  ELSE IF st.result # "running" THEN [st EXCEPT !.bad = "call_after_completion"]
  ELSE IF len # st.need THEN [st EXCEPT !.bad = "request_size"]           \* read_exact asks for exactly what is outstanding
  ELSE IF ret > 0 THEN
         IF ret > len \/ st.pos + ret > st.avail THEN [st EXCEPT !.bad = "reader_contract"]
         ELSE IF ret < st.need THEN [st EXCEPT !.pos = @ + ret, !.need = @ - ret]
         ELSE IF st.ri = Len(st.reqs) THEN [st EXCEPT !.pos = @ + ret, !.need = 0, !.result = "ok"]
         ELSE [st EXCEPT !.pos = @ + ret, !.ri = @ + 1, !.need = st.reqs[st.ri + 1]]
  ELSE IF ret = 0 THEN [st EXCEPT !.result = "io", !.kind = 0]            \* UnexpectedEof
  ELSE IF ret = Interrupted THEN st                                       \* retried with the same request
  ELSE [st EXCEPT !.result = "io", !.kind = ret]                          \* hard error: returned as is

RECURSIVE Run(_, _, _)
Run(st, calls, i) == IF i > Len(calls) THEN st ELSE Run(Step(st, calls[i][1], calls[i][2]), calls, i + 1)
=============================================================================
