-------------------------------- MODULE AseParse --------------------------------
(* The byte-level decoder: Decode(bytes) is the chunk program a byte string encodes  *)
(* (the inverse of AseBytes!Encode, following src/parse.rs and the per-chunk parsers  *)
(* field by field), so that the loader specification starts at the bytes:             *)
(*        OutcomeOfBytes(b) = outcome class of Load(Decode(b))                        *)
(* zlib streams made of stored deflate blocks are decoded in TLA+; streams with       *)
(* compressed blocks go through the TLC override AseZlib!ZInflate. Unsigned 32-bit    *)
(* values >= 2^31 cannot be represented in TLC: there the result is "unknown" and     *)
(* the byte string is only monitored, never judged.                                   *)
(* Malformed framing (short bodies, sizes beyond the frame budget, unknown chunk      *)
(* kinds, bad zlib headers or checksums) is reported as `broken`: the loader may       *)
(* return an error there; whatever was decoded before it still counts (a feature the  *)
(* library must refuse makes the outcome "err" even if a later chunk is broken).      *)
EXTENDS AseBytes, AseLoad, AseZlib

Has(b, o, n) == o >= 0 /\ n >= 0 /\ o + n <= Len(b)
U8(b, o) == b[o + 1]
I16At(b, o) == LET v == U16At(b, o) IN IF v >= 32768 THEN v - 65536 ELSE v
Big(b, o) == b[o + 4] >= 128
I32At(b, o) == IF Big(b, o) THEN (b[o + 1] + 256 * b[o + 2] + 65536 * b[o + 3] + 16777216 * (b[o + 4] - 128)) - 2147483647 - 1
               ELSE U32At(b, o)
Sub(b, o, n) == SubSeq(b, o + 1, o + n)
Num(n) == ToString(n)                      \* carried values travel as decimal strings

\* result constructors
Ok(c) == [t |-> "ok", c |-> c]
Broken(why) == [t |-> "broken", why |-> why]
Unknown(why) == [t |-> "unknown", why |-> why]

\* STRING: WORD length + bytes; returns [ok, s, next]
StrAt(b, o) == IF ~Has(b, o, 2) THEN [ok |-> FALSE, s |-> <<>>, next |-> o]
               ELSE LET n == U16At(b, o) IN
                    IF ~Has(b, o + 2, n) THEN [ok |-> FALSE, s |-> <<>>, next |-> o]
                    ELSE [ok |-> TRUE, s |-> Sub(b, o + 2, n), next |-> o + 2 + n]

\* split a byte sequence into pixels of k bytes (a trailing partial pixel is dropped here; the caller checks divisibility)
Pixels(data, k) == [i \in 1..(Len(data) \div k) |-> SubSeq(data, (i - 1) * k + 1, i * k)]

\* ---- zlib with stored blocks ----
\* returns [t: "ok" | "broken" | "unknown", data]
RECURSIVE InflateBlocks(_, _, _)
InflateBlocks(z, o, acc) ==
  IF ~Has(z, o, 1) THEN [t |-> "broken", data |-> acc, next |-> o]
  ELSE LET hdr == U8(z, o)
           final == hdr % 2 = 1
           btype == (hdr \div 2) % 4
       IN IF btype # 0 THEN [t |-> "unknown", data |-> acc, next |-> o]            \* compressed block: not decodable in TLA+
          ELSE IF ~Has(z, o + 1, 4) THEN [t |-> "broken", data |-> acc, next |-> o]
          ELSE LET len == U16At(z, o + 1)
                   nlen == U16At(z, o + 3)
               IN IF len + nlen # 65535 \/ ~Has(z, o + 5, len) THEN [t |-> "broken", data |-> acc, next |-> o]
                  ELSE IF final THEN [t |-> "ok", data |-> acc \o Sub(z, o + 5, len), next |-> o + 5 + len]
                  ELSE InflateBlocks(z, o + 5 + len, acc \o Sub(z, o + 5, len))
Inflate(z) ==
  IF ~Has(z, 0, 2) THEN [t |-> "broken", data |-> <<>>]
  ELSE IF U8(z, 0) % 16 # 8 \/ (U8(z, 0) * 256 + U8(z, 1)) % 31 # 0 \/ (U8(z, 1) \div 32) % 2 = 1 THEN [t |-> "broken", data |-> <<>>]
  ELSE LET r == InflateBlocks(z, 2, <<>>) IN
       IF r.t = "unknown" THEN LET j == ZInflate(z) IN [t |-> IF j[1] THEN "ok" ELSE "broken", data |-> j[2]]   \* compressed blocks: override
       ELSE IF r.t # "ok" THEN [t |-> r.t, data |-> r.data]
       ELSE IF ~Has(z, r.next, 4) \/ Sub(z, r.next, 4) # Adler32BE(r.data) THEN [t |-> "broken", data |-> r.data]
       ELSE [t |-> "ok", data |-> r.data]

\* ---- chunk bodies (b = the chunk body, offsets 0-based) ----
DecLayer(b) ==
  IF ~Has(b, 0, 16) THEN Broken("layer") ELSE
  LET nm == StrAt(b, 16)
      lt == U16At(b, 2)
  IN IF ~nm.ok THEN Broken("layer.name")
     ELSE IF lt = 2 /\ ~Has(b, nm.next, 4) THEN Broken("layer.tileset")
     ELSE IF lt = 2 /\ Big(b, nm.next) THEN Unknown("layer.tileset")
     ELSE Ok([k |-> "layer", flags |-> U16At(b, 0), ltype |-> lt, level |-> U16At(b, 4), dw |-> U16At(b, 6), dh |-> U16At(b, 8),
              blend |-> U16At(b, 10), opacity |-> U8(b, 12), name |-> nm.s,
              tileset |-> IF lt = 2 THEN <<Num(U32At(b, nm.next))>> ELSE <<>>])

DecCel(b, bpp) ==
  IF ~Has(b, 0, 16) THEN Broken("cel") ELSE
  LET ct == U16At(b, 7)
      base == [k |-> "cel", layer |-> U16At(b, 0), x |-> I16At(b, 2), y |-> I16At(b, 4), opacity |-> U8(b, 6), ctype |-> ct,
               w |-> 0, h |-> 0, px |-> <<>>, link |-> 0, tiles |-> <<>>, bits |-> 32, masks |-> <<0, 0, 0, 0>>]
  IN CASE ct = 0 ->
            IF ~Has(b, 16, 4) THEN Broken("cel.size")
            ELSE LET w == U16At(b, 16)
                     h == U16At(b, 18)
                     avail == Len(b) - 20
                 IN IF avail < SatMul(SatMul(w, h), bpp) THEN Broken("cel.raw_short")
                    ELSE Ok([base EXCEPT !.w = w, !.h = h, !.px = Pixels(Sub(b, 20, w * h * bpp), bpp)])
       [] ct = 1 -> IF ~Has(b, 16, 2) THEN Broken("cel.link") ELSE Ok([base EXCEPT !.link = U16At(b, 16)])
       [] ct = 2 ->
            IF ~Has(b, 16, 4) THEN Broken("cel.size")
            ELSE LET z == Inflate(Sub(b, 20, Len(b) - 20)) IN
                 IF z.t = "unknown" THEN Unknown("cel.zlib")
                 ELSE IF z.t = "broken" THEN Broken("cel.zlib")
                 ELSE IF Len(z.data) % bpp # 0 THEN Broken("cel.pixel_bytes")
                 ELSE Ok([base EXCEPT !.w = U16At(b, 16), !.h = U16At(b, 18), !.px = Pixels(z.data, bpp)])
       [] ct = 3 ->
            IF ~Has(b, 16, 6) THEN Broken("cel.tilemap")
            ELSE IF U16At(b, 20) # 32 THEN Ok([base EXCEPT !.w = U16At(b, 16), !.h = U16At(b, 18), !.bits = U16At(b, 20)])   \* refused before anything else is read
            ELSE IF ~Has(b, 22, 26) THEN Broken("cel.tilemap")
            ELSE IF Big(b, 22) THEN Unknown("cel.tile_mask")
            ELSE LET z == Inflate(Sub(b, 48, Len(b) - 48))
                     mask == U32At(b, 22)
                 IN IF z.t = "unknown" THEN Unknown("cel.zlib")
                    ELSE IF z.t = "broken" THEN Broken("cel.zlib")
                    ELSE LET n == Len(z.data) \div 4
                             bigTile == \E i \in 1..n : z.data[4 * i] >= 128
                         IN IF bigTile THEN Unknown("cel.tile_value")
                            ELSE Ok([base EXCEPT !.w = U16At(b, 16), !.h = U16At(b, 18), !.masks = <<mask, 0, 0, 0>>,
                                                 !.tiles = [i \in 1..n |-> U32At(z.data, 4 * (i - 1))]])
       [] OTHER -> Ok(base)                                                       \* unknown cel type: the loader must refuse it

RECURSIVE DecTagList(_, _, _, _)
DecTagList(b, o, n, acc) ==
  IF n = 0 THEN Ok([k |-> "tags", tags |-> acc])
  ELSE IF ~Has(b, o, 17) THEN Broken("tags")
  ELSE LET nm == StrAt(b, o + 17) IN
       IF ~nm.ok THEN Broken("tags.name")
       ELSE DecTagList(b, nm.next, n - 1,
              Append(acc, [from |-> U16At(b, o), to |-> U16At(b, o + 2), dir |-> U8(b, o + 4), repeat |-> U16At(b, o + 5), name |-> nm.s]))
DecTags(b) == IF ~Has(b, 0, 10) THEN Broken("tags") ELSE DecTagList(b, 10, U16At(b, 0), <<>>)

RECURSIVE DecKeys(_, _, _, _, _)
DecKeys(b, o, n, flags, acc) ==
  IF n = 0 THEN [t |-> "ok", keys |-> acc]
  ELSE LET sz == 20 + (IF HasBit(flags, 1) THEN 16 ELSE 0) + (IF HasBit(flags, 2) THEN 8 ELSE 0) IN
       IF ~Has(b, o, sz) THEN [t |-> "broken", keys |-> acc]
       ELSE LET o9 == o + 20
                op == o9 + (IF HasBit(flags, 1) THEN 16 ELSE 0)
                bigU == Big(b, o) \/ Big(b, o + 12) \/ Big(b, o + 16) \/ (HasBit(flags, 1) /\ (Big(b, o9 + 8) \/ Big(b, o9 + 12)))
            IN IF bigU THEN [t |-> "unknown", keys |-> acc]
               ELSE DecKeys(b, o + sz, n - 1, flags,
                      Append(acc, [frame |-> Num(U32At(b, o)), x |-> Num(I32At(b, o + 4)), y |-> Num(I32At(b, o + 8)),
                                   w |-> Num(U32At(b, o + 12)), h |-> Num(U32At(b, o + 16)),
                                   s9 |-> IF HasBit(flags, 1) THEN [cx |-> Num(I32At(b, o9)), cy |-> Num(I32At(b, o9 + 4)), cw |-> Num(U32At(b, o9 + 8)), ch |-> Num(U32At(b, o9 + 12))]
                                          ELSE [cx |-> "0", cy |-> "0", cw |-> "0", ch |-> "0"],
                                   pivot |-> IF HasBit(flags, 2) THEN [x |-> Num(I32At(b, op)), y |-> Num(I32At(b, op + 4))] ELSE [x |-> "0", y |-> "0"]]))
DecSlice(b) ==
  IF ~Has(b, 0, 12) THEN Broken("slice")
  ELSE IF Big(b, 0) \/ Big(b, 4) THEN Unknown("slice.count_or_flags")
  ELSE LET nm == StrAt(b, 12) IN
       IF ~nm.ok THEN Broken("slice.name")
       ELSE LET flags == U32At(b, 4)
                ks == DecKeys(b, nm.next, U32At(b, 0), flags, <<>>)
            IN IF ks.t = "unknown" THEN Unknown("slice.key") ELSE IF ks.t = "broken" THEN Broken("slice.keys")
               ELSE Ok([k |-> "slice", name |-> nm.s, flags |-> flags, keys |-> ks.keys])

DecUd(b) ==
  IF ~Has(b, 0, 4) THEN Broken("ud") ELSE
  LET f == U8(b, 0)
      txt == IF f % 2 = 1 THEN StrAt(b, 4) ELSE [ok |-> TRUE, s |-> <<>>, next |-> 4]
  IN IF ~txt.ok THEN Broken("ud.text")
     ELSE IF HasBit(f, 2) /\ ~Has(b, txt.next, 4) THEN Broken("ud.color")
     ELSE Ok([k |-> "ud", text |-> IF f % 2 = 1 THEN <<txt.s>> ELSE <<>>, color |-> IF HasBit(f, 2) THEN <<Sub(b, txt.next, 4)>> ELSE <<>>])

RECURSIVE DecPalEntries(_, _, _, _)
DecPalEntries(b, o, n, acc) ==
  IF n = 0 THEN [t |-> "ok", es |-> acc]
  ELSE IF ~Has(b, o, 6) THEN [t |-> "broken", es |-> acc]
  ELSE LET fl == U16At(b, o)
           nm == IF fl % 2 = 1 THEN StrAt(b, o + 6) ELSE [ok |-> TRUE, s |-> <<>>, next |-> o + 6]
       IN IF ~nm.ok THEN [t |-> "broken", es |-> acc]
          ELSE DecPalEntries(b, nm.next, n - 1, Append(acc, [flags |-> fl, rgba |-> Sub(b, o + 2, 4), name |-> nm.s]))
DecPal(b) ==
  IF ~Has(b, 0, 20) THEN Broken("pal")
  ELSE IF Big(b, 4) \/ Big(b, 8) THEN Unknown("pal.range")
  ELSE LET first == U32At(b, 4)
           last == U32At(b, 8)
       IN IF last < first THEN Ok([k |-> "pal", first |-> first, last |-> last, entries |-> <<>>])
          ELSE IF last - first > 70000 THEN Unknown("pal.range")
          ELSE LET es == DecPalEntries(b, 20, last - first + 1, <<>>) IN
               IF es.t = "broken" THEN Broken("pal.entries") ELSE Ok([k |-> "pal", first |-> first, last |-> last, entries |-> es.es])

RECURSIVE DecPackets(_, _, _, _)
DecPackets(b, o, n, acc) ==
  IF n = 0 THEN [t |-> "ok", ps |-> acc]
  ELSE IF ~Has(b, o, 2) THEN [t |-> "broken", ps |-> acc]
  ELSE LET cnt == IF U8(b, o + 1) = 0 THEN 256 ELSE U8(b, o + 1) IN
       IF ~Has(b, o + 2, 3 * cnt) THEN [t |-> "broken", ps |-> acc]
       ELSE DecPackets(b, o + 2 + 3 * cnt, n - 1, Append(acc, [skip |-> U8(b, o), count |-> U8(b, o + 1), rgb |-> Pixels(Sub(b, o + 2, 3 * cnt), 3)]))
DecOldPal(b, kind) ==
  IF ~Has(b, 0, 2) THEN Broken("oldpal")
  ELSE LET r == DecPackets(b, 2, U16At(b, 0), <<>>) IN
       IF r.t = "broken" THEN Broken("oldpal.packets") ELSE Ok([k |-> kind, packets |-> r.ps])

DecProfile(b) ==
  IF ~Has(b, 0, 16) THEN Broken("profile") ELSE Ok([k |-> "profile", ptype |-> U16At(b, 0), flags |-> U16At(b, 2)])

RECURSIVE DecExtEntries(_, _, _, _)
DecExtEntries(b, o, n, acc) ==
  IF n = 0 THEN [t |-> "ok", es |-> acc]
  ELSE IF ~Has(b, o, 12) THEN [t |-> "broken", es |-> acc]
  ELSE IF Big(b, o) THEN [t |-> "unknown", es |-> acc]
  ELSE LET nm == StrAt(b, o + 12) IN
       IF ~nm.ok THEN [t |-> "broken", es |-> acc]
       ELSE DecExtEntries(b, nm.next, n - 1, Append(acc, [id |-> Num(U32At(b, o)), name |-> nm.s]))
DecExtFiles(b) ==
  IF ~Has(b, 0, 12) THEN Broken("extfiles")
  ELSE IF Big(b, 0) \/ U32At(b, 0) > 70000 THEN Unknown("extfiles.count")
  ELSE LET r == DecExtEntries(b, 12, U32At(b, 0), <<>>) IN
       IF r.t = "unknown" THEN Unknown("extfiles.id") ELSE IF r.t = "broken" THEN Broken("extfiles.entries") ELSE Ok([k |-> "extfiles", entries |-> r.es])

DecTileset(b, bpp) ==
  IF ~Has(b, 0, 32) THEN Broken("tileset")
  ELSE IF Big(b, 0) \/ Big(b, 4) \/ Big(b, 8) THEN Unknown("tileset.id_flags_count")
  ELSE LET nm == StrAt(b, 32)
           fl == U32At(b, 4)
       IN IF ~nm.ok THEN Broken("tileset.name")
          ELSE LET oe == nm.next
                   op == oe + (IF HasBit(fl, 1) THEN 8 ELSE 0)
                   common == [k |-> "tileset", id |-> Num(U32At(b, 0)), flags |-> fl, count |-> U32At(b, 8), tw |-> U16At(b, 12), th |-> U16At(b, 14),
                              base |-> I16At(b, 16), name |-> nm.s, ext |-> [file |-> "0", ts |-> "0"], px |-> <<>>]
               IN IF HasBit(fl, 1) /\ ~Has(b, oe, 8) THEN Broken("tileset.ext")
                  ELSE IF HasBit(fl, 1) /\ (Big(b, oe) \/ Big(b, oe + 4)) THEN Unknown("tileset.ext")
                  ELSE LET c1 == IF HasBit(fl, 1) THEN [common EXCEPT !.ext = [file |-> Num(U32At(b, oe)), ts |-> Num(U32At(b, oe + 4))]] ELSE common IN
                       IF ~HasBit(fl, 2) THEN Ok(c1)
                       ELSE IF ~Has(b, op, 4) THEN Broken("tileset.clen")
                       ELSE IF common.count > 70000 THEN Unknown("tileset.count")
                       ELSE LET z == Inflate(Sub(b, op + 4, Len(b) - op - 4)) IN
                            IF z.t = "unknown" THEN Unknown("tileset.zlib") ELSE IF z.t = "broken" THEN Broken("tileset.zlib")
                            ELSE IF Len(z.data) % bpp # 0 THEN Broken("tileset.pixel_bytes")
                            ELSE Ok([c1 EXCEPT !.px = Pixels(z.data, bpp)])

CodeKind(code) == CASE code = 4 -> "oldpal04" [] code = 17 -> "oldpal11" [] code = 8196 -> "layer" [] code = 8197 -> "cel"
  [] code = 8198 -> "celextra" [] code = 8199 -> "profile" [] code = 8200 -> "extfiles" [] code = 8214 -> "mask" [] code = 8215 -> "path"
  [] code = 8216 -> "tags" [] code = 8217 -> "pal" [] code = 8224 -> "ud" [] code = 8226 -> "slice" [] code = 8227 -> "tileset" [] OTHER -> "?"
DecChunk(kind, body, bpp) ==
  CASE kind = "layer" -> DecLayer(body) [] kind = "cel" -> DecCel(body, bpp) [] kind = "tags" -> DecTags(body) [] kind = "slice" -> DecSlice(body)
    [] kind = "ud" -> DecUd(body) [] kind = "pal" -> DecPal(body) [] kind \in {"oldpal04", "oldpal11"} -> DecOldPal(body, kind)
    [] kind = "profile" -> DecProfile(body) [] kind = "extfiles" -> DecExtFiles(body) [] kind = "tileset" -> DecTileset(body, bpp)
    [] OTHER -> Ok([k |-> kind])

\* ---- framing: header, frames, chunks ----
\* one frame's chunks: returns [t, chunks, next]
RECURSIVE DecChunks(_, _, _, _, _, _)
DecChunks(b, o, n, budget, bpp, acc) ==
  IF n = 0 THEN [t |-> "ok", chunks |-> acc, next |-> o, why |-> ""]
  ELSE IF ~Has(b, o, 6) THEN [t |-> "broken", chunks |-> acc, next |-> o, why |-> "chunk_header"]
  ELSE IF Big(b, o) THEN [t |-> "broken", chunks |-> acc, next |-> o, why |-> "chunk_size"]     \* >= 2^31 exceeds any frame budget
  ELSE LET size == U32At(b, o)
           kind == CodeKind(U16At(b, o + 4))
       IN IF kind = "?" THEN [t |-> "broken", chunks |-> acc, next |-> o, why |-> "unknown_chunk"]
          ELSE IF size < 6 \/ size > budget THEN [t |-> "broken", chunks |-> acc, next |-> o, why |-> "chunk_size"]
          ELSE IF ~Has(b, o + 6, size - 6) THEN [t |-> "broken", chunks |-> acc, next |-> o, why |-> "chunk_body"]
          ELSE LET d == DecChunk(kind, Sub(b, o + 6, size - 6), bpp) IN
               IF d.t = "ok" THEN DecChunks(b, o + size, n - 1, budget - size, bpp, Append(acc, d.c))
               ELSE [t |-> d.t, chunks |-> acc, next |-> o, why |-> d.why]

\* all frames: returns [t, frames, why]; a broken/unknown chunk ends the decoding, the chunks before it are kept
RECURSIVE DecFrames(_, _, _, _, _)
DecFrames(b, o, n, bpp, acc) ==
  IF n = 0 THEN [t |-> "ok", frames |-> acc, why |-> ""]
  ELSE IF ~Has(b, o, 16) THEN [t |-> "broken", frames |-> acc, why |-> "frame_header"]
  ELSE IF Big(b, o) \/ Big(b, o + 12) THEN [t |-> "unknown", frames |-> acc, why |-> "frame_size_or_count"]
  ELSE LET old == U16At(b, o + 6)
           new == U32At(b, o + 12)
           cnt == IF new = 0 THEN old ELSE new
           magic == U16At(b, o + 4)
           fr(chunks) == [dur |-> U16At(b, o + 8), magic |-> magic, chunks |-> chunks]
       IN IF magic # 61946 THEN [t |-> "broken", frames |-> Append(acc, fr(<<>>)), why |-> "frame_magic"]
          ELSE IF cnt > 70000 THEN [t |-> "unknown", frames |-> acc, why |-> "chunk_count"]
          ELSE LET r == DecChunks(b, o + 16, cnt, U32At(b, o) - 16, bpp, <<>>) IN
               IF r.t = "ok" THEN DecFrames(b, r.next, n - 1, bpp, Append(acc, fr(r.chunks)))
               ELSE [t |-> r.t, frames |-> Append(acc, fr(r.chunks)), why |-> r.why]

Decode(b) ==
  IF ~Has(b, 0, 128) THEN [t |-> "broken", why |-> "header", prog |-> <<>>]
  ELSE LET depth == U16At(b, 12)
           hdr == [nframes |-> U16At(b, 6), w |-> U16At(b, 8), h |-> U16At(b, 10), depth |-> depth, tidx |-> U8(b, 28),
                   pixw |-> U8(b, 34), pixh |-> U8(b, 35), speed |-> U16At(b, 18), magic |-> U16At(b, 4)]
       IN IF hdr.magic # 42464 \/ depth \notin {8, 16, 32} \/ (hdr.pixw # 0 /\ hdr.pixh # 0 /\ ~(hdr.pixw = 1 /\ hdr.pixh = 1))
          THEN [t |-> "ok", why |-> "", prog |-> [hdr |-> hdr, frames |-> <<>>]]       \* refused from the header alone (InitPS records why)
          ELSE LET r == DecFrames(b, 128, hdr.nframes, Bpp(depth), <<>>) IN
               [t |-> r.t, why |-> r.why, prog |-> [hdr |-> hdr, frames |-> r.frames]]

\* outcome class of a byte string: "ok" | "err" | "either" | "unknown"
OutcomeOfBytes(b) ==
  LET d == Decode(b) IN
  IF d.t = "broken" /\ d.why = "header" THEN "either"
  ELSE LET ps == IF d.t = "ok" THEN Load(d.prog) ELSE ApplyFrames(InitPS(d.prog.hdr), d.prog.frames, 1) IN
       IF ps.must # {} THEN "err"                       \* a feature that must be refused was already seen
       ELSE IF d.t = "unknown" THEN "unknown"
       ELSE IF d.t = "broken" THEN "either"
       ELSE Outcome(ps)
=============================================================================
