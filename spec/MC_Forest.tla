------------------------------- MODULE MC_Forest -------------------------------
(* C09: every layer forest of up to MaxLayers layers with every assignment of  *)
(* visible flags. The environment appends layers; each reachable state is a     *)
(* complete program (prefix closed): layer i is a group when the next layer is *)
(* nested inside it, otherwise an image layer holding one opaque pixel in      *)
(* column i of an N x 1 canvas.                                                *)
EXTENDS AseObs, Json

CONSTANTS MaxLayers, ImageLayers   \* ImageLayers: image invariant only up to this many layers (cost)
VARIABLES levels, vis
vars == <<levels, vis>>

N == Len(levels)
IsGroup(i) == i < N /\ levels[i + 1] > levels[i]          \* 1-based position i
LayerChunk(i) ==
  [k |-> "layer", flags |-> (IF vis[i] THEN 1 ELSE 0), ltype |-> (IF IsGroup(i) THEN 1 ELSE 0), level |-> levels[i],
   blend |-> 0, opacity |-> 255, name |-> <<65 + i>>, tileset |-> <<>>]
CelChunk(i) ==
  [k |-> "cel", layer |-> i - 1, x |-> i - 1, y |-> 0, opacity |-> 255, ctype |-> 0, w |-> 1, h |-> 1,
   px |-> <<<<10 * i, 20 * i, 30 * i, 255>>>>, link |-> 0, tiles |-> <<>>, bits |-> 32, masks |-> <<536870911, 0, 0, 0>>]
Program ==
  [hdr |-> [nframes |-> 1, w |-> MaxLayers, h |-> 1, depth |-> 32, tidx |-> 0, pixw |-> 1, pixh |-> 1, speed |-> 100, magic |-> 42464],
   frames |-> << [dur |-> 100, magic |-> 61946,
                  chunks |-> [i \in 1..N |-> LayerChunk(i)]
                             \o SelectSeq([i \in 1..N |-> IF IsGroup(i) THEN [k |-> "path"] ELSE CelChunk(i)], LAMBDA c : c.k = "cel")] >>]
PS == Load(Program)

Init == levels = <<>> /\ vis = <<>>
Next == /\ N < MaxLayers
        /\ \E lv \in 0..(IF N = 0 THEN 0 ELSE levels[N] + 1), v \in BOOLEAN :
             levels' = Append(levels, lv) /\ vis' = Append(vis, v)
Spec == Init /\ [][Next]_vars

\* ---- code-shaped parent computation (src/layer.rs compute_parents): walk down from id-1 ----
RECURSIVE WalkDown(_, _, _)
WalkDown(ps, j, lvl) == IF Level(ps, j) >= lvl THEN WalkDown(ps, j - 1, lvl) ELSE j
ParentCode(ps, i) == IF Level(ps, i) = 0 THEN None ELSE Some(WalkDown(ps, i - 1, Level(ps, i)))

\* All invariants over one evaluation of Load(Program) (TLC caches LET-bound values).
WellFormed(ps) == Outcome(ps) = "ok"
ParentOk(ps) == \A i \in 0..(N - 1) :
  /\ Parent(ps, i) = ParentCode(ps, i)
  /\ (Level(ps, i) = 0) = IsNone(Parent(ps, i))
  /\ IsSome(Parent(ps, i)) => Parent(ps, i)[1] < i
VisibleOk(ps) == \A i \in 0..(N - 1) : VisibleRec(ps, i) = VisibleDecl(ps, i)
\* the one-pass vector forms used by trace validation are the declarative notions
VecOk(ps) == /\ ParentVec(ps) = [i \in 1..N |-> Parent(ps, i - 1)]
             /\ VisibleVec(ps) = [i \in 1..N |-> VisibleDecl(ps, i - 1)]
\* hidden layers (directly or through an ancestor) contribute nothing to the frame image
HiddenOk(ps) == N <= ImageLayers =>
  LET img == FrameImage(ps, 0) IN
  \A i \in 0..(N - 1) : (img[i + 1] # Transparent) = (~IsGroup(i + 1) /\ VisibleDecl(ps, i))
ForestInv == LET ps == PS IN WellFormed(ps) /\ ParentOk(ps) /\ VisibleOk(ps) /\ VecOk(ps) /\ HiddenOk(ps)

\* export: one compact descriptor per reachable state
Export == PrintT(<<"PROG", ToJson([levels |-> levels, vis |-> vis])>>)
=============================================================================
