SPECIFICATION Spec
CONSTANTS MaxLayers = 6
ImageLayers = 6
INVARIANTS ForestInv Export
CHECK_DEADLOCK FALSE
