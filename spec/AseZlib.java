import tlc2.value.impl.BoolValue;
import tlc2.value.impl.IntValue;
import tlc2.value.impl.TupleValue;
import tlc2.value.impl.Value;
import java.util.zip.Inflater;
import java.io.ByteArrayOutputStream;

// zlib (RFC 1950) inflate for the TLA+ byte-level decoder. See AseZlib.tla.
public class AseZlib {
  public static Value ZInflate(final Value vz) {
    Value[] in = ((TupleValue) vz.toTuple()).elems;
    byte[] z = new byte[in.length];
    for (int i = 0; i < in.length; i++) z[i] = (byte) ((IntValue) in[i]).val;
    Inflater inf = new Inflater(false);
    try {
      inf.setInput(z);
      ByteArrayOutputStream out = new ByteArrayOutputStream();
      byte[] buf = new byte[65536];
      while (!inf.finished()) {
        int n = inf.inflate(buf);
        if (n == 0 && (inf.needsInput() || inf.needsDictionary())) { return fail(); }
        out.write(buf, 0, n);
        if (out.size() > (1 << 26)) { return fail(); }
      }
      byte[] d = out.toByteArray();
      Value[] vs = new Value[d.length];
      for (int i = 0; i < d.length; i++) vs[i] = IntValue.gen(d[i] & 0xff);
      return new TupleValue(new Value[] { BoolValue.ValTrue, new TupleValue(vs) });
    } catch (Exception e) {
      return fail();
    } finally {
      inf.end();
    }
  }
  static Value fail() {
    return new TupleValue(new Value[] { BoolValue.ValFalse, new TupleValue(new Value[0]) });
  }
}
