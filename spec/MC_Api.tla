--------------------------------- MODULE MC_Api ---------------------------------
EXTENDS Integers
SpriteV == [w |-> 2, frames |-> 2]
EvalV(s, c) == IF c = "width" THEN s.w ELSE IF c = "frames" THEN s.frames ELSE s.w * s.frames
VARIABLES sprite, todo, inflight, log
INSTANCE AseApi WITH Threads <- {1, 2, 3}, Calls <- {"width", "frames", "area"}, Sprite <- SpriteV, Eval <- EvalV
=============================================================================
