--------------------------------- MODULE MC_Api ---------------------------------
EXTENDS Integers
ParseV(f) == IF f = "a" THEN [loaded |-> TRUE, w |-> 2, frames |-> 2] ELSE [loaded |-> TRUE, w |-> 3, frames |-> 1]
EvalV(s, c) == IF c = "width" THEN s.w ELSE s.w * s.frames
CONSTANT T
VARIABLES store, todo, inflight, log
INSTANCE AseApi WITH Threads <- 1..T, Files <- {"a", "b"}, Accessors <- {"width", "area"}, Parse <- ParseV, Eval <- EvalV, MaxLen <- 2
=============================================================================
