SPECIFICATION Spec
CONSTANTS MaxLen = 3
Depth = 32
INVARIANTS FoldInv RenderDefinedInv CelOrderInv RoundTripInv
CHECK_DEADLOCK FALSE
