SPECIFICATION Spec
CONSTANTS MaxLen = 3
Depth = 32
INVARIANTS FoldInv RenderDefinedInv CelOrderInv Export
CHECK_DEADLOCK FALSE
