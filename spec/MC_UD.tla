--------------------------------- MODULE MC_UD ---------------------------------
(* C10: the user-data context machine of the loader, model checked against a   *)
(* declarative, history-only statement of the property, for every chunk        *)
(* sequence (program) of up to MaxLen chunks built from                        *)
(*   layer, cel(l), slice, tags(1), tags(2), legacy palette, new palette,      *)
(*   ignorable, user data                                                      *)
(* spread over up to two frames (the context lives across the frame boundary;  *)
(* a tags chunk outside frame 0 is ignored, so tags are offered in frame 0),   *)
(* that satisfies the side conditions of C10 (the enabling conditions of the   *)
(* UserData action, stated on the history `syms`, not on the machine state).   *)
(* The machine state `ps` is advanced by AseLoad!ApplyChunk, one action per    *)
(* chunk; every reachable state is a complete program and is exported.         *)
EXTENDS AseObs, Json

CONSTANT MaxLen
VARIABLES syms, ps
vars == <<syms, ps>>

NF == 2
Hdr == [nframes |-> NF, w |-> 1, h |-> 1, depth |-> 32, tidx |-> 0, pixw |-> 1, pixh |-> 1, speed |-> 100, magic |-> 42464]

\* user data records: text-only, colour-only, both, and EMPTY records (no flag set) rotate by position;
\* the non-empty ones are distinct per position
UdChunk(pos) ==
  CASE pos % 4 = 0 -> [k |-> "ud", text |-> <<<<85, 48 + pos>>>>, color |-> <<>>]
    [] pos % 4 = 1 -> [k |-> "ud", text |-> <<>>, color |-> <<<<pos, 2, 3, 255>>>>]
    [] pos % 4 = 2 -> [k |-> "ud", text |-> <<<<85, 48 + pos>>>>, color |-> <<<<pos, 5, 6, 7>>>>]
    [] OTHER -> [k |-> "ud", text |-> <<>>, color |-> <<>>]
ChunkOf(sym, pos) ==
  CASE sym[1] = "layer" -> [k |-> "layer", flags |-> 1, ltype |-> 0, level |-> 0, blend |-> 0, opacity |-> 255, name |-> <<76>>, tileset |-> <<>>]
    [] sym[1] = "cel" -> [k |-> "cel", layer |-> sym[2], x |-> 0, y |-> 0, opacity |-> 255, ctype |-> 0, w |-> 1, h |-> 1,
                          px |-> <<<<pos, pos, pos, 255>>>>, link |-> 0, tiles |-> <<>>, bits |-> 32, masks |-> <<536870911, 0, 0, 0>>]
    [] sym[1] = "slice" -> [k |-> "slice", name |-> <<83>>, flags |-> 0, keys |-> <<>>]
    [] sym[1] = "tags" -> [k |-> "tags", tags |-> [i \in 1..sym[2] |-> [from |-> 0, to |-> 0, dir |-> 0, repeat |-> 0, name |-> <<84, 48 + i>>]]]
    [] sym[1] = "oldpal" -> [k |-> "oldpal04", packets |-> <<[skip |-> 0, count |-> 1, rgb |-> <<<<1, 2, 3>>>>]>>]
    [] sym[1] = "newpal" -> [k |-> "pal", first |-> 0, last |-> 0, entries |-> <<[flags |-> 0, rgba |-> <<9, 9, 9, 255>>, name |-> <<>>]>>]
    [] sym[1] = "ign" -> [k |-> "celextra"]
    [] sym[1] = "ud" -> UdChunk(pos)

\* ---- declarative statement of C10, from the history alone ----
Attachable == {"layer", "cel", "slice", "tags", "oldpal"}
\* the frame a position lies in: the number of frame boundaries before it
FrameOf(s, j) == Cardinality({k \in 1..(j - 1) : s[k][1] = "frame"})
NumBefore(i, kind) == Cardinality({j \in 1..(i - 1) : syms[j][1] = kind})
\* the entity a chunk at position j denotes
EntityAt(s, j) ==
  CASE s[j][1] = "layer" -> <<"layer", Cardinality({k \in 1..(j - 1) : s[k][1] = "layer"})>>
    [] s[j][1] = "cel" -> <<"cel", FrameOf(s, j), s[j][2]>>
    [] s[j][1] = "slice" -> <<"slice", Cardinality({k \in 1..(j - 1) : s[k][1] = "slice"})>>
    [] s[j][1] = "oldpal" -> <<"sprite">>
    [] s[j][1] = "tags" -> <<"tags", s[j][2]>>
LastAttachable(s, i) == LET S == {j \in 1..(i - 1) : s[j][1] \in Attachable} IN IF S = {} THEN 0 ELSE Max(S)
UdBetween(s, j, i) == Cardinality({k \in (j + 1)..(i - 1) : s[k][1] = "ud"})
\* owner of a user data chunk at position i of history s (i may be Len(s)+1: the chunk about to be written)
Owner(s, i) ==
  LET j == LastAttachable(s, i) IN
  IF j = 0 THEN <<>>
  ELSE IF s[j][1] = "tags" THEN <<"tag", UdBetween(s, j, i)>> ELSE EntityAt(s, j)
UdPositions(s) == {i \in 1..Len(s) : s[i][1] = "ud"}

\* ---- environment: which chunk may come next (side conditions of C10) ----
NLayers == Cardinality({j \in 1..Len(syms) : syms[j][1] = "layer"})
CurFrame == FrameOf(syms, Len(syms) + 1)
CelLayers == {syms[j][2] : j \in {k \in 1..Len(syms) : syms[k][1] = "cel" /\ FrameOf(syms, k) = CurFrame}}
HasTags == \E j \in 1..Len(syms) : syms[j][1] = "tags"
UdAllowed ==
  LET i == Len(syms) + 1
      j == LastAttachable(syms, i)
      o == Owner(syms, i)
  IN /\ j # 0                                                           \* a preceding attachable entity
     /\ syms[j][1] = "tags" => UdBetween(syms, j, i) < syms[j][2]       \* at most n records follow tags(n)
     /\ o \notin {Owner(syms, k) : k \in UdPositions(syms)}             \* no entity receives two records
Candidates ==
  {<<"layer">>, <<"slice">>, <<"oldpal">>, <<"newpal">>, <<"ign">>}
  \cup {<<"cel", l>> : l \in (0..(NLayers - 1)) \ CelLayers}
  \cup (IF HasTags \/ CurFrame # 0 THEN {} ELSE {<<"tags", 1>>, <<"tags", 2>>})
  \cup (IF CurFrame < NF - 1 THEN {<<"frame">>} ELSE {})
  \cup (IF UdAllowed THEN {<<"ud">>} ELSE {})

Init == syms = <<>> /\ ps = BeginFrame(InitPS(Hdr), 0, 100, 61946)
Next == /\ Len(syms) < MaxLen
        /\ \E sym \in Candidates :
             /\ syms' = Append(syms, sym)
             /\ ps' = IF sym[1] = "frame" THEN BeginFrame(ps, CurFrame + 1, 100 + CurFrame + 1, 61946)
                      ELSE ApplyChunk(ps, ChunkOf(sym, Len(syms) + 1))
Spec == Init /\ [][Next]_vars

\* ---- what the machine did: the record each entity holds ----
Entities ==
  {<<"layer", k - 1>> : k \in DOMAIN ps.layers} \cup {<<"cel", ps.cels[k].f, ps.cels[k].l>> : k \in DOMAIN ps.cels}
  \cup {<<"slice", k - 1>> : k \in DOMAIN ps.slices}
  \cup (IF IsSome(ps.tags) THEN {<<"tag", k - 1>> : k \in DOMAIN ps.tags[1]} ELSE {}) \cup {<<"sprite">>}
RecordOf(e) ==
  CASE e[1] = "layer" -> ps.layers[e[2] + 1].ud
    [] e[1] = "cel" -> ps.cels[CelIdx(ps.cels, e[2], e[3])].ud
    [] e[1] = "slice" -> ps.slices[e[2] + 1].ud
    [] e[1] = "tag" -> ps.tags[1][e[2] + 1].ud
    [] e[1] = "sprite" -> ps.spriteUD
\* what the history says each entity must hold (no entity receives two records: at most one position per owner)
Expected(e) ==
  LET S == {i \in UdPositions(syms) : Owner(syms, i) = e}
  IN IF S = {} THEN None ELSE Some(UDOf(UdChunk(CHOOSE i \in S : TRUE)))

\* every record is attached to the entity the history names and to no other; entities without a record report none
UDOwnerInv == \A e \in Entities : RecordOf(e) = Expected(e)
\* every owner named by the history exists as an entity
NoStrayInv == \A i \in UdPositions(syms) : Owner(syms, i) \in Entities
\* no well-formed program of this family is refused
\* (a program that has not reached its last frame yet is completed by empty frames, as the export does)
Fin == IF CurFrame = NF - 1 THEN ps ELSE BeginFrame(ps, NF - 1, 100 + NF - 1, 61946)
AcceptedInv == ~Stopped(ps) /\ ~Stopped(Fin) /\ Outcome(Validate(Fin)) = "ok"
\* ignorable chunks (and the neutral colour profile / new palette context-wise) are stuttering steps
IgnoredStutterInv ==
  /\ \A k \in IgnorableKinds : ApplyChunk(ps, [k |-> k]) = ps
  /\ ApplyChunk(ps, [k |-> "profile", ptype |-> 1, flags |-> 0]) = ps
  /\ ApplyChunk(ps, ChunkOf(<<"newpal">>, 0)).ctx = ps.ctx

Export == PrintT(<<"PROG", ToJson(syms)>>)
=============================================================================
