------------------------------- MODULE Trace_Api -------------------------------
(* C16: call logs of real threads sharing one &AsepriteFile, validated against   *)
(* the functional reading of AseApi: every result equals the result of the same  *)
(* call in the sequential baseline (hence equals every other occurrence).        *)
EXTENDS Integers, Sequences, FiniteSets, Json, IOUtils, TLC

Rec == ndJsonDeserialize(IOEnv.TRACE)
VARIABLES l, base, case
RejectReg == 42
Verdict(ok, info) == IF ok THEN TRUE ELSE PrintT(<<"REJECT", info>>) /\ TLCSet(RejectReg, TLCGet(RejectReg) + 1)
Count(reg, n) == TLCSet(reg, TLCGet(reg) + n)
IsEvent(e) == l <= Len(Rec) /\ Rec[l].ev = e /\ l' = l + 1

TBaseline == /\ IsEvent("baseline")
             /\ LET e == Rec[l] IN
                  /\ base' = e.results /\ case' = e.case /\ Count(43, 1)
                  \* repeated in another order on one thread: same results
                  /\ Verdict(e.again = e.results, <<e.case, "api_repeat_differs",
                             {e.calls[k] : k \in {k \in DOMAIN e.results : e.again[k] # e.results[k]}}>>)
TThread == /\ IsEvent("thread")
           /\ LET e == Rec[l]
                  bad == {k \in DOMAIN e.calls : e.results[k] # base[e.calls[k]]}
              IN /\ Count(44, Len(e.calls))
                 /\ Verdict(bad = {}, <<case, "api_concurrent_result_differs", e.thread, Cardinality(bad)>>)
           /\ UNCHANGED <<base, case>>
TraceInit == l = 1 /\ base = <<>> /\ case = "" /\ TLCSet(RejectReg, 0) /\ TLCSet(43, 0) /\ TLCSet(44, 0)
TraceSpec == TraceInit /\ [][TBaseline \/ TThread]_<<l, base, case>>
TraceAccepted ==
  LET d == TLCGet("stats").diameter IN
  /\ IF d - 1 = Len(Rec) THEN TRUE ELSE Print(<<"TRACE-STUCK at event", d>>, FALSE)
  /\ PrintT(<<"OUTCOMES", TLCGet(43), TLCGet(44), 0, 0>>)
  /\ IF TLCGet(RejectReg) = 0 THEN TRUE ELSE Print(<<"TRACE-REJECTS", TLCGet(RejectReg)>>, FALSE)
=============================================================================
