------------------------------ MODULE Trace_Bytes ------------------------------
(* Cross-check of the harness encoder against AseBytes!Encode, and of the end   *)
(* of the last frame computed from the bytes alone (EndOfFrames).               *)
EXTENDS AseParse, Json, IOUtils

Rec == ndJsonDeserialize(IOEnv.TRACE)
VARIABLE l
RejectReg == 42
Verdict(ok, info) == IF ok THEN TRUE ELSE PrintT(<<"REJECT", info>>) /\ TLCSet(RejectReg, TLCGet(RejectReg) + 1)
Count(reg, n) == TLCSet(reg, TLCGet(reg) + n)

FirstDiff(a, b) == LET S == {i \in 1..(IF Len(a) < Len(b) THEN Len(a) ELSE Len(b)) : a[i] # b[i]}
                   IN IF S = {} THEN 0 ELSE CHOOSE i \in S : \A j \in S : i <= j
TEnc == /\ l <= Len(Rec) /\ Rec[l].ev = "enc" /\ l' = l + 1
        /\ LET e == Rec[l]
               spec == Encode(e.prog)
           IN /\ Count(43, 1) /\ Count(44, Len(e.bytes))
              /\ Verdict(e.bytes = spec, <<e.case, "encoder_bytes_differ", "lengths", Len(e.bytes), Len(spec), "first_difference_at", FirstDiff(e.bytes, spec) - 1>>)
              /\ Verdict(EndOfFrames(e.bytes) = e.eof, <<e.case, "end_of_frames_differs", EndOfFrames(e.bytes), e.eof>>)
              \* the byte-level decoder is the inverse of the encoder as far as the loader can tell
              /\ LET d == Decode(e.bytes) IN
                   Verdict(d.t = "ok" /\ Load(d.prog) = Load(e.prog), <<e.case, "decode_roundtrip_differs", d.t, d.why>>)
TraceInit == l = 1 /\ TLCSet(RejectReg, 0) /\ TLCSet(43, 0) /\ TLCSet(44, 0)
TraceSpec == TraceInit /\ [][TEnc]_l
TraceAccepted ==
  LET d == TLCGet("stats").diameter IN
  /\ IF d - 1 = Len(Rec) THEN TRUE ELSE Print(<<"TRACE-STUCK at event", d>>, FALSE)
  /\ PrintT(<<"OUTCOMES", TLCGet(43), TLCGet(44), 0, 0>>)
  /\ IF TLCGet(RejectReg) = 0 THEN TRUE ELSE Print(<<"TRACE-REJECTS", TLCGet(RejectReg)>>, FALSE)
=============================================================================
