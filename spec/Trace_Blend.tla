------------------------------ MODULE Trace_Blend ------------------------------
(* C03 / C17: blend vectors rendered by the implementation through the public  *)
(* rendering API (two-layer sprites, Frame::image) validated against AseBlend. *)
(* One event = up to 128 vectors sharing (mode, layer opacity, cel opacity):   *)
(*   B, S : backdrop / source pixels, R : the implementation's result,         *)
(*   RN   : the implementation's result for the same vectors in Normal mode.   *)
(* "reference" verdicts (C03) compare R with the specification's Blend;        *)
(* "law" verdicts (C17) relate R only to B, S, RN and the opacity product.     *)
EXTENDS AseBlend, Json, IOUtils

Rec == ndJsonDeserialize(IOEnv.TRACE)
VARIABLE l

RejectReg == 42
Verdict(ok, info) == IF ok THEN TRUE ELSE PrintT(<<"REJECT", info>>) /\ TLCSet(RejectReg, TLCGet(RejectReg) + 1)
Count(reg, n) == TLCSet(reg, TLCGet(reg) + n)

FirstBad(S) == IF S = {} THEN 0 ELSE CHOOSE k \in S : \A j \in S : k <= j
Witness(e, k) == <<e.m, e.lop, e.cop, e.B[k], e.S[k], e.R[k]>>

TBlend ==
  /\ l <= Len(Rec) /\ Rec[l].ev = "blend" /\ l' = l + 1
  /\ LET e == Rec[l]
         op == CelOpacity(e.lop, e.cop)
         K == DOMAIN e.B
     IN IF e.panic # "" THEN Verdict(FALSE, <<"blend", "blend_panic", e.m, e.lop, e.cop, e.panic>>)
        ELSE
        LET badRef == {k \in K : ~PixEq(e.R[k], Blend(e.m, e.B[k], e.S[k], op))}
            badAlpha == {k \in K : e.R[k][4] # e.RN[k][4]}
            badSrc == {k \in K : (e.B[k][4] > 0 /\ (e.S[k][4] = 0 \/ op = 0)) /\ ~PixEq(e.R[k], e.B[k])}
            badBack == {k \in K : e.B[k][4] = 0 /\ ~PixEq(e.R[k], <<e.S[k][1], e.S[k][2], e.S[k][3], MulUn8(e.S[k][4], op)>>)}
            badOpaque == {k \in K : (e.m = 0 /\ op = 255 /\ e.S[k][4] = 255) /\ e.R[k] # e.S[k]}
        IN /\ Count(43, Cardinality(K))
           /\ Count(44, Cardinality({k \in K : e.B[k][4] > 0 /\ e.S[k][4] > 0 /\ op > 0}))
           /\ Verdict(Len(e.R) = Len(e.B) /\ Len(e.RN) = Len(e.B), <<"blend", "blend_shape", e.m>>)
           /\ Verdict(badRef = {}, <<"blend", "blend_reference", Witness(e, FirstBad(badRef)),
                                     "spec", Blend(e.m, e.B[FirstBad(badRef)], e.S[FirstBad(badRef)], op)>>)
           /\ Verdict(badAlpha = {}, <<"blend", "blend_law_alpha", Witness(e, FirstBad(badAlpha))>>)
           /\ Verdict(badSrc = {}, <<"blend", "blend_law_transparent_source", Witness(e, FirstBad(badSrc))>>)
           /\ Verdict(badBack = {}, <<"blend", "blend_law_transparent_backdrop", Witness(e, FirstBad(badBack))>>)
           /\ Verdict(badOpaque = {}, <<"blend", "blend_law_opaque_normal", Witness(e, FirstBad(badOpaque))>>)

TraceInit == l = 1 /\ TLCSet(RejectReg, 0) /\ TLCSet(43, 0) /\ TLCSet(44, 0)
TraceSpec == TraceInit /\ [][TBlend]_l
TraceAccepted ==
  LET d == TLCGet("stats").diameter IN
  /\ IF d - 1 = Len(Rec) THEN TRUE ELSE Print(<<"TRACE-STUCK at event", d>>, FALSE)
  /\ PrintT(<<"OUTCOMES", TLCGet(43), TLCGet(44), 0, 0>>)
  /\ IF TLCGet(RejectReg) = 0 THEN TRUE ELSE Print(<<"TRACE-REJECTS", TLCGet(RejectReg)>>, FALSE)
=============================================================================
