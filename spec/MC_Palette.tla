------------------------------ MODULE MC_Palette ------------------------------
(* C11: palette chunk sequences. The environment writes up to MaxChunks palette *)
(* chunks drawn from a menu (new-format ranges, legacy 0x0004 / 0x0011 packet   *)
(* structures incl. cumulative skips and the count byte 0 = 256), then a layer  *)
(* and an indexed cel whose pixel indices range over a small set. TLC checks    *)
(* the loader machine against a declarative statement of the palette rules.     *)
EXTENDS AseObs, Json

CONSTANTS MaxChunks, MaxPixels
VARIABLES seq, px, phase
vars == <<seq, px, phase>>

E(r, g, b, a, named) == [flags |-> IF named THEN 1 ELSE 0, rgba |-> <<r, g, b, a>>, name |-> IF named THEN <<110, 48 + (r % 10)>> ELSE <<>>]
Menu == <<
  [k |-> "pal", first |-> 0, last |-> 1, total |-> "2", entries |-> <<E(10, 20, 30, 255, FALSE), E(40, 50, 60, 128, TRUE)>>],
  [k |-> "pal", first |-> 1, last |-> 4, total |-> "5", entries |-> <<E(1, 1, 1, 255, FALSE), E(2, 2, 2, 0, FALSE), E(3, 3, 3, 7, TRUE), E(4, 4, 4, 255, FALSE)>>],
  [k |-> "oldpal04", packets |-> <<[skip |-> 0, count |-> 2, rgb |-> <<<<255, 0, 128>>, <<1, 2, 3>>>>]>>],
  [k |-> "oldpal04", packets |-> <<[skip |-> 1, count |-> 1, rgb |-> <<<<9, 9, 9>>>>], [skip |-> 3, count |-> 2, rgb |-> <<<<7, 7, 7>>, <<8, 8, 8>>>>]>>],
  [k |-> "oldpal11", packets |-> <<[skip |-> 0, count |-> 3, rgb |-> <<<<0, 63, 31>>, <<32, 1, 62>>, <<16, 47, 21>>>>]>>],
  [k |-> "oldpal11", packets |-> <<[skip |-> 4, count |-> 1, rgb |-> <<<<63, 63, 63>>>>], [skip |-> 0, count |-> 1, rgb |-> <<<<5, 6, 7>>>>]>>],
  [k |-> "oldpal04", packets |-> <<[skip |-> 0, count |-> 0, rgb |-> [i \in 1..256 |-> <<i - 1, 255 - (i - 1), (i * 7) % 256>>]]>>],
  \* a hole inside a palette that still has entries 0 and n-1 (ids 0, 2, 3): index 1 is absent
  [k |-> "oldpal04", packets |-> <<[skip |-> 0, count |-> 1, rgb |-> <<<<50, 60, 70>>>>], [skip |-> 2, count |-> 2, rgb |-> <<<<51, 61, 71>>, <<52, 62, 72>>>>]>>],
  [k |-> "oldpal11", packets |-> <<[skip |-> 0, count |-> 2, rgb |-> <<<<5, 6, 7>>, <<8, 9, 10>>>>], [skip |-> 4, count |-> 2, rgb |-> <<<<1, 1, 1>>, <<2, 2, 2>>>>]>>],
  \* count byte 0 (= 256 colours) together with a non-zero cumulative skip: ids 3..258
  [k |-> "oldpal04", packets |-> <<[skip |-> 1, count |-> 1, rgb |-> <<<<90, 91, 92>>>>], [skip |-> 2, count |-> 0, rgb |-> [i \in 1..256 |-> <<(i * 3) % 256, i - 1, 255 - (i - 1)>>]]>>]
>>
IsNew(i) == Menu[i].k = "pal"
PixelAlphabet == {0, 1, 2, 3, 4, 5, 7, 255}

Hdr == [nframes |-> 1, w |-> MaxPixels, h |-> 1, depth |-> 8, tidx |-> 0, pixw |-> 1, pixh |-> 1, speed |-> 100, magic |-> 42464]
LayerChunk == [k |-> "layer", flags |-> 1, ltype |-> 0, level |-> 0, blend |-> 0, opacity |-> 255, name |-> <<76>>, tileset |-> <<>>]
CelChunk == [k |-> "cel", layer |-> 0, x |-> 0, y |-> 0, opacity |-> 255, ctype |-> 2, w |-> Len(px), h |-> 1,
             px |-> [i \in DOMAIN px |-> <<px[i]>>], link |-> 0, tiles |-> <<>>, bits |-> 32, masks |-> <<536870911, 0, 0, 0>>]
Program == [hdr |-> Hdr,
            frames |-> << [dur |-> 100, magic |-> 61946,
                           chunks |-> [i \in DOMAIN seq |-> Menu[seq[i]]] \o <<LayerChunk>> \o (IF px = <<>> THEN <<>> ELSE <<CelChunk>>)] >>]

Init == seq = <<>> /\ px = <<>> /\ phase = "palettes"
AddChunk == phase = "palettes" /\ Len(seq) < MaxChunks /\ \E i \in DOMAIN Menu : seq' = Append(seq, i) /\ UNCHANGED <<px, phase>>
AddPixel == Len(px) < MaxPixels /\ \E v \in PixelAlphabet : px' = Append(px, v) /\ phase' = "pixels" /\ UNCHANGED seq
Next == AddChunk \/ AddPixel
Spec == Init /\ [][Next]_vars

\* ---- declarative palette rules (history only) ----
NewMap(c) == [i \in c.first..c.last |-> [rgba |-> c.entries[i - c.first + 1].rgba,
                                         name |-> IF c.entries[i - c.first + 1].flags % 2 = 1 THEN <<c.entries[i - c.first + 1].name>> ELSE <<>>]]
\* legacy: packet p covers ids Start(p)..Start(p)+Count(p)-1 where Start is the sum of the skip bytes so far
PStart(c, p) == SeqSum([q \in 1..p |-> c.packets[q].skip])
PCount(c, p) == IF c.packets[p].count = 0 THEN 256 ELSE c.packets[p].count
PIds(c, p) == PStart(c, p)..(PStart(c, p) + PCount(c, p) - 1)
LastPacketWith(c, id) == Max({p \in DOMAIN c.packets : id \in PIds(c, p)})
Up(v, six) == IF six THEN (v * 4 + (v \div 16)) ELSE v
OldMap(c) ==
  LET six == c.k = "oldpal11" IN
  [id \in UNION {PIds(c, p) : p \in DOMAIN c.packets} |->
     LET p == LastPacketWith(c, id)
         t == c.packets[p].rgb[id - PStart(c, p) + 1]
     IN [rgba |-> <<Up(t[1], six), Up(t[2], six), Up(t[3], six), 255>>, name |-> <<>>]]
NewPositions == {i \in DOMAIN seq : IsNew(seq[i])}
OldPositions == {i \in DOMAIN seq : ~IsNew(seq[i])}
\* a new-format palette takes precedence over legacy chunks in either order
\* (several chunks of one format: the code keeps the last new / the first legacy one - named deviation)
DeclPalette ==
  IF NewPositions # {} THEN [origin |-> "new", m |-> NewMap(Menu[seq[Max(NewPositions)]])]
  ELSE IF OldPositions # {} THEN [origin |-> "old", m |-> OldMap(Menu[seq[Min(OldPositions)]])]
  ELSE [origin |-> "none", m |-> <<>>]
Enforced == Cardinality(NewPositions) <= 1 /\ Cardinality(OldPositions) <= 1

PaletteInv ==
  LET ps == Load(Program)
      d == DeclPalette
      complete == d.origin # "none" /\ \A i \in DOMAIN px : px[i] \in DOMAIN d.m
  IN /\ ps.pal.origin = d.origin
     /\ d.origin # "none" => (DOMAIN ps.pal.m = DOMAIN d.m /\ \A i \in DOMAIN d.m : ps.pal.m[i] = d.m[i])
     \* an indexed sprite with pixels but no palette, or a pixel index absent from the palette, fails to load
     /\ Outcome(ps) = (IF px = <<>> \/ complete THEN "ok" ELSE "err")

\* 6-bit scaling: 0 -> 0, 63 -> 255, monotone, within rounding distance of the exact ratio
ASSUME Scale6Law ==
             /\ Scale6(0) = 0 /\ Scale6(63) = 255
             /\ \A v \in 0..62 : Scale6(v) < Scale6(v + 1)
             /\ \A v \in 0..63 : Scale6(v) \in 0..255 /\ Abs(63 * Scale6(v) - 255 * v) <= 126

ASSUME PrintT(<<"MENU", ToJson(Menu)>>)
Export == PrintT(<<"PROG", ToJson([seq |-> seq, px |-> px, enforced |-> Enforced])>>)
=============================================================================
