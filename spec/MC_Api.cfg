SPECIFICATION Spec
INVARIANTS Immutable Functional Deterministic
CHECK_DEADLOCK FALSE
