-------------------------------- MODULE MC_Read --------------------------------
(* All reader scripts for small abstract streams: every split into short reads, *)
(* every placement of up to MaxInt Interrupted results, at most one hard error, *)
(* every amount of available input (truncation at every cut point).            *)
EXTENDS AseRead, TLC

CONSTANTS MaxInt, MaxExtra
ReqSets == {<<>>, <<1>>, <<2>>, <<4, 2>>, <<1, 3, 2>>, <<2, 2, 3>>, <<3, 1, 1, 2>>}
VARIABLES st, nint, herr, calls
vars == <<st, nint, herr, calls>>

Init == \E reqs \in ReqSets : \E avail \in 0..(Needed(reqs) + MaxExtra) :
          st = InitSt(reqs, avail) /\ nint = 0 /\ herr = FALSE /\ calls = <<>>
Deliver == st.result = "running" /\ st.pos < st.avail
           /\ \E n \in 1..(IF st.need < st.avail - st.pos THEN st.need ELSE st.avail - st.pos) :
                st' = Step(st, st.need, n) /\ calls' = Append(calls, <<st.need, n>>) /\ UNCHANGED <<nint, herr>>
Eof == st.result = "running" /\ st.pos = st.avail /\ st' = Step(st, st.need, 0) /\ calls' = Append(calls, <<st.need, 0>>) /\ UNCHANGED <<nint, herr>>
Interrupt == st.result = "running" /\ nint < MaxInt /\ st' = Step(st, st.need, Interrupted) /\ calls' = Append(calls, <<st.need, Interrupted>>) /\ nint' = nint + 1 /\ UNCHANGED herr
Hard == st.result = "running" /\ ~herr /\ \E k \in {-2, -3} : st' = Step(st, st.need, k) /\ calls' = Append(calls, <<st.need, k>>) /\ herr' = TRUE /\ UNCHANGED nint
Next == Deliver \/ Eof \/ Interrupt \/ Hard
Spec == Init /\ [][Next]_vars /\ WF_vars(Next)

NoBad == st.bad = ""
\* the machine state is the fold of Step over the recorded calls (the form used for trace validation)
FoldIsState == Run(InitSt(st.reqs, st.avail), calls, 1) = st
\* bytes after the needed ones are never requested
NeverBeyond == st.pos <= Needed(st.reqs) /\ st.pos <= st.avail
\* C13: a truncated stream never loads
TruncatedFails == (st.avail < Needed(st.reqs) /\ st.result # "running") => st.result = "io"
\* C14: without a hard error the result depends on the bytes only, not on the script
ScriptIndependent == (st.result # "running" /\ ~herr) => (st.result = (IF st.avail >= Needed(st.reqs) THEN "ok" ELSE "io") /\ (st.result = "io" => st.kind = 0))
OkMeansAll == st.result = "ok" => st.pos = Needed(st.reqs)
\* an injected hard error is returned as is, never turned into a sprite
HardReturned == (st.result # "running" /\ herr) => (st.result = "io" /\ st.kind \in HardErrors)
Terminates == <>(st.result # "running")
=============================================================================
