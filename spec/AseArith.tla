------------------------------ MODULE AseArith ------------------------------
(* pixman-style 8-bit fixed point helpers and the colour-free alpha skeleton  *)
(* of Aseprite's blend functions. Kept free of TLC-only constructs so that    *)
(* the same definitions are model checked (AseBlend, MC_Blend) and proved     *)
(* (AseArithProofs, TLAPS).                                                   *)
EXTENDS Integers

\* C-style truncating division (TLA+ \div floors)
TDiv(a, b) == IF a >= 0 THEN a \div b ELSE -((-a) \div b)

\* pixman MUL_UN8 / DIV_UN8; t may be negative in Blend8: >> is arithmetic = floor
MulUn8(a, b) == LET t == a * b + 128 IN ((t \div 256) + t) \div 256
DivUn8(a, b) == (a * 255 + (b \div 2)) \div b
Blend8(back, src, op) == back + MulUn8(src - back, op)

\* pixels are <<r, g, b, a>>
Normal(B, S, op) ==
  IF B[4] = 0 THEN <<S[1], S[2], S[3], MulUn8(S[4], op)>>
  ELSE IF S[4] = 0 THEN B
  ELSE LET sa == MulUn8(S[4], op)
           ra == sa + B[4] - MulUn8(B[4], sa)
       IN <<B[1] + TDiv((S[1]-B[1])*sa, ra), B[2] + TDiv((S[2]-B[2])*sa, ra),
            B[3] + TDiv((S[3]-B[3])*sa, ra), ra>>

Merge(B, S, op) ==
  LET ra == Blend8(B[4], S[4], op)
      rgb == IF B[4] = 0 THEN <<S[1], S[2], S[3]>>
             ELSE IF S[4] = 0 THEN <<B[1], B[2], B[3]>>
             ELSE <<Blend8(B[1], S[1], op), Blend8(B[2], S[2], op), Blend8(B[3], S[3], op)>>
  IN IF ra = 0 THEN <<0,0,0,0>> ELSE <<rgb[1], rgb[2], rgb[3], ra>>

\* the "new layer blending method" wrapper shared by all non-Normal modes; X is the blend source, i.e. what the
\* mode feeds to Normal in place of the source colour (X[4] = S[4])
BlendWith(B, S, X, op) ==
  LET norm == Normal(B, S, op)
      bl == Normal(B, X, op)
      n2b == Merge(norm, bl, B[4])
      comp == MulUn8(B[4], MulUn8(S[4], op))
  IN Merge(n2b, bl, comp)

NormalAlpha(Ba, Sa, op) ==
  IF Ba = 0 THEN MulUn8(Sa, op)
  ELSE IF Sa = 0 THEN Ba
  ELSE LET sa == MulUn8(Sa, op) IN sa + Ba - MulUn8(Ba, sa)
MergeAlpha(Ba, Sa, op) == Blend8(Ba, Sa, op)
AlphaOf(nonNormal, Ba, Sa, op) ==
  IF ~nonNormal \/ Ba = 0 THEN NormalAlpha(Ba, Sa, op)
  ELSE LET na == NormalAlpha(Ba, Sa, op)
           n2b == MergeAlpha(na, na, Ba)
           comp == MulUn8(Ba, MulUn8(Sa, op))
       IN MergeAlpha(n2b, na, comp)
=============================================================================
