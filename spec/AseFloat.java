import tlc2.value.impl.IntValue;
import tlc2.value.impl.TupleValue;
import tlc2.value.impl.Value;
// Transcription of aseprite/src/doc/blend_funcs.cpp (double-precision parts).
public class AseFloat {
  static int iv(Value v) { return ((IntValue) v).val; }
  public static Value SoftLightChan(final Value vb, final Value vs) {
    double b = iv(vb) / 255.0, s = iv(vs) / 255.0, r, d;
    if (b <= 0.25) d = ((16*b-12)*b+4)*b; else d = Math.sqrt(b);
    if (s <= 0.5) r = b - (1.0 - 2.0*s) * b * (1.0 - b); else r = b + (2.0*s - 1.0) * (d - b);
    return IntValue.gen((int)(long)(r * 255 + 0.5));   // (uint32_t)(r*255+0.5)
  }
  static double lum(double r, double g, double b) { return 0.3*r + 0.59*g + 0.11*b; }
  static double sat(double r, double g, double b) {
    return Math.max(r, Math.max(g, b)) - Math.min(r, Math.min(g, b)); }
  static void clip(double[] c) {
    double l = lum(c[0], c[1], c[2]);
    double n = Math.min(c[0], Math.min(c[1], c[2]));
    double x = Math.max(c[0], Math.max(c[1], c[2]));
    if (n < 0) { for (int i = 0; i < 3; i++) c[i] = l + (((c[i] - l) * l) / (l - n)); }
    if (x > 1) { for (int i = 0; i < 3; i++) c[i] = l + (((c[i] - l) * (1 - l)) / (x - l)); }
  }
  static void setLum(double[] c, double l) {
    double d = l - lum(c[0], c[1], c[2]);
    c[0] += d; c[1] += d; c[2] += d; clip(c);
  }
  // Aseprite's set_sat with its MIN/MID/MAX reference macros (aliasing quirk reproduced)
  static void setSat(double[] c, double s) {
    double r = c[0], g = c[1], b = c[2];
    int min = (r < ((g < b) ? g : b)) ? 0 : ((g < b) ? 1 : 2);
    int max = (r > ((g > b) ? g : b)) ? 0 : ((g > b) ? 1 : 2);
    int mid = (r > g) ? ((g > b) ? 1 : ((r > b) ? 2 : 0)) : ((g > b) ? ((b > r) ? 2 : 0) : 1);
    if (c[max] > c[min]) { c[mid] = ((c[mid] - c[min]) * s) / (c[max] - c[min]); c[max] = s; }
    else { c[mid] = 0; c[max] = 0; }
    c[min] = 0;
  }
  public static Value HslSource(final Value vm, final Value vB, final Value vS) {
    int m = iv(vm);
    Value[] B = ((TupleValue) vB.toTuple()).elems, S = ((TupleValue) vS.toTuple()).elems;
    double[] bk = { iv(B[0]) / 255.0, iv(B[1]) / 255.0, iv(B[2]) / 255.0 };
    double[] sc = { iv(S[0]) / 255.0, iv(S[1]) / 255.0, iv(S[2]) / 255.0 };
    double[] c;
    switch (m) {
      case 12: { double s = sat(bk[0],bk[1],bk[2]), l = lum(bk[0],bk[1],bk[2]); c = sc; setSat(c, s); setLum(c, l); break; } // hue
      case 13: { double s = sat(sc[0],sc[1],sc[2]), l = lum(bk[0],bk[1],bk[2]); c = bk; setSat(c, s); setLum(c, l); break; } // saturation
      case 14: { double l = lum(bk[0],bk[1],bk[2]); c = sc; setLum(c, l); break; }                                           // color
      default: { double l = lum(sc[0],sc[1],sc[2]); c = bk; setLum(c, l); break; }                                           // luminosity
    }
    return new TupleValue(new Value[] { IntValue.gen((int)(255.0 * c[0]) & 255),
      IntValue.gen((int)(255.0 * c[1]) & 255), IntValue.gen((int)(255.0 * c[2]) & 255) });
  }
}
