------------------------------ MODULE Trace_Read ------------------------------
(* C13 / C14: reader behaviour traces validated against AseRead.                *)
(*  base : baseline run of a file with a reader that always fills the buffer:   *)
(*         its call lengths are the file's request list `reqs`                  *)
(*  run  : the same file read through a scripted reader (short reads,           *)
(*         Interrupted, one hard error at a byte offset): the recorded          *)
(*         read(len) -> ret calls are replayed through AseRead!Step and the     *)
(*         loader's result is compared with the machine's result               *)
(*  variant : BufReader / Cursor / File readers: result and observation only    *)
(*  cuts : every prefix of a file (C13)                                         *)
EXTENDS AseRead, AseBytes, Json, IOUtils
FoldRun(reqs0, avail, calls) == FoldLeft(LAMBDA st, c : Step(st, c[1], c[2]), InitSt(reqs0, avail), calls)

Rec == ndJsonDeserialize(IOEnv.TRACE)
VARIABLES l, reqs, case
RejectReg == 42
Verdict(ok, info) == IF ok THEN TRUE ELSE PrintT(<<"REJECT", info>>) /\ TLCSet(RejectReg, TLCGet(RejectReg) + 1)
Count(reg, n) == TLCSet(reg, TLCGet(reg) + n)
IsEvent(e) == l <= Len(Rec) /\ Rec[l].ev = e /\ l' = l + 1
IsErrResult(r) == r \notin {"ok", "panic", "abort", "hang", "stack_overflow", "killed"}

KindName(k) == CASE k = -2 -> "Other" [] k = -3 -> "BrokenPipe" [] k = -4 -> "PermissionDenied" [] k = -5 -> "TimedOut"
                 [] k = -6 -> "ConnectionReset" [] k = -7 -> "UnexpectedEof" [] k = -8 -> "InvalidData" [] OTHER -> "?"

TBase ==
  /\ IsEvent("base")
  /\ LET e == Rec[l]
         r == [i \in DOMAIN e.calls |-> e.calls[i][1]]
         fin == FoldRun(r, e.len, e.calls)
     IN /\ reqs' = r /\ case' = e.case
        /\ Count(43, 1)
        \* the baseline itself: full reads, needed bytes = end of the last frame, loads
        /\ Verdict(e.result = "ok" /\ fin.bad = "" /\ fin.result = "ok" /\ fin.pos = e.eof,
                   <<e.case, "reader_baseline", e.result, fin.bad, fin.pos, e.eof>>)
        \* the bytes a loader needs, computed by the specification from the bytes alone
        /\ Verdict(e.bytes = <<>> \/ EndOfFrames(e.bytes) = e.eof, <<e.case, "end_of_frames_differs", e.eof>>)

TRun ==
  /\ IsEvent("run")
  /\ LET e == Rec[l]
         fin == FoldRun(reqs, e.len, e.calls)
     IN /\ Count(44, 1) /\ Count(45, Len(e.calls))
        /\ Verdict(fin.bad = "", <<case, "reader_call_sequence", e.script, fin.bad, fin.ri, fin.need, fin.pos>>)
        /\ Verdict(fin.result # "running", <<case, "reader_stopped_early", e.script, e.result, fin.ri, fin.need>>)
        /\ IF fin.bad # "" \/ fin.result = "running" THEN TRUE
           ELSE IF fin.result = "ok"
                THEN Verdict(e.result = "ok" /\ e.obs_equal, <<case, "reader_result_differs", e.script, e.result, e.obs_equal>>)
                ELSE IF fin.kind = 0
                     THEN Verdict(IsErrResult(e.result), <<case, "reader_eof_not_error", e.script, e.result>>)
                     ELSE Verdict(e.result = "err:IoError:" \o KindName(fin.kind) /\ e.source_ok,
                                  <<case, "reader_error_not_returned", e.script, e.result, KindName(fin.kind), e.source_ok>>)
  /\ UNCHANGED <<reqs, case>>

TVariant ==
  /\ IsEvent("variant")
  /\ LET e == Rec[l] IN Verdict(e.result = "ok" /\ e.obs_equal, <<case, "reader_variant_differs", e.kind, e.result, e.obs_equal>>)
  /\ Count(46, 1)
  /\ UNCHANGED <<reqs, case>>

\* C13: every strict prefix ending before the end of the last frame fails; the full file loads
TCuts ==
  /\ IsEvent("cuts")
  /\ LET e == Rec[l]
         badCuts == {k \in 1..e.eof : ~IsErrResult(e.results[k])}      \* results[k] is the prefix of length k-1
     IN /\ Count(43, 1) /\ Count(44, e.eof)
        /\ Verdict(e.full = "ok" /\ e.results[e.eof + 1] = "ok", <<e.case, "cut_full_file_fails", e.full, e.results[e.eof + 1]>>)
        /\ Verdict(e.bytes = <<>> \/ EndOfFrames(e.bytes) = e.eof, <<e.case, "end_of_frames_differs", e.eof>>)
        /\ Verdict(badCuts = {}, <<e.case, "cut_prefix_loaded", IF badCuts = {} THEN 0 ELSE (CHOOSE k \in badCuts : TRUE) - 1,
                                   IF badCuts = {} THEN "" ELSE e.results[CHOOSE k \in badCuts : TRUE], Cardinality(badCuts)>>)
  /\ UNCHANGED <<reqs, case>>

\* large files: the same demand on a sample of cut positions (every cut near both ends, around every chunk start and every
\* multiple of 64 KiB, a stride in between)
TSparseCuts ==
  /\ IsEvent("scuts")
  /\ LET e == Rec[l]
         badCuts == {k \in DOMAIN e.at : e.at[k] < e.eof /\ ~IsErrResult(e.results[k])}
     IN /\ Count(43, 1) /\ Count(44, Len(e.at))
        /\ Verdict(e.full = "ok" /\ e.at_eof = "ok", <<e.case, "cut_full_file_fails", e.full, e.at_eof>>)
        /\ Verdict(e.bytes = <<>> \/ EndOfFrames(e.bytes) = e.eof, <<e.case, "end_of_frames_differs", e.eof>>)
        /\ Verdict(badCuts = {}, <<e.case, "cut_prefix_loaded", IF badCuts = {} THEN 0 ELSE e.at[CHOOSE k \in badCuts : TRUE],
                                   IF badCuts = {} THEN "" ELSE e.results[CHOOSE k \in badCuts : TRUE], Cardinality(badCuts)>>)
  /\ UNCHANGED <<reqs, case>>

\* a file that does not load in full is outside the quantifier (prefixes of VALID files); a crash is still rejected
TSkip ==
  /\ IsEvent("skip")
  /\ Verdict(~Rec[l].crash, <<Rec[l].case, "reader_full_load_crashed", Rec[l].why>>)
  /\ UNCHANGED <<reqs, case>>

TraceInit == l = 1 /\ reqs = <<>> /\ case = "" /\ TLCSet(RejectReg, 0) /\ TLCSet(43, 0) /\ TLCSet(44, 0) /\ TLCSet(45, 0) /\ TLCSet(46, 0)
TraceNext == TBase \/ TRun \/ TVariant \/ TCuts \/ TSparseCuts \/ TSkip
TraceSpec == TraceInit /\ [][TraceNext]_<<l, reqs, case>>
TraceAccepted ==
  LET d == TLCGet("stats").diameter IN
  /\ IF d - 1 = Len(Rec) THEN TRUE ELSE Print(<<"TRACE-STUCK at event", d>>, FALSE)
  /\ PrintT(<<"OUTCOMES", TLCGet(43), TLCGet(44), TLCGet(45), TLCGet(46)>>)
  /\ IF TLCGet(RejectReg) = 0 THEN TRUE ELSE Print(<<"TRACE-REJECTS", TLCGet(RejectReg)>>, FALSE)
=============================================================================
