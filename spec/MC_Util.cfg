SPECIFICATION Spec
CONSTANTS MaxDim = 2
MaxStrip = 4
MaxPal = 3
INVARIANTS ExtrudeInv Export
CHECK_DEADLOCK FALSE
