-------------------------------- MODULE MC_Util --------------------------------
(* Small-scope exhaustive enumeration for C18: every image with w, h in 1..MaxDim *)
(* over a 3-colour alphabet (plus 1 x N and N x 1 strips), every palette of up to *)
(* 4 entries over 3 colours at first index 0 or 254 (duplicates, indices >= 256), *)
(* every option pair. Model invariants state the defining equations of Extrude.   *)
EXTENDS AseUtil, Json, TLC

CONSTANTS MaxDim, MaxStrip, MaxPal
VARIABLES kind, w, h, px, first, entries, failure, transparent
vars == <<kind, w, h, px, first, entries, failure, transparent>>

Colours == {<<255, 0, 0, 255>>, <<0, 255, 0, 128>>, <<1, 2, 3, 0>>}
\* colours related by channel permutations, equal channel sums and carries between channels (255 next to 1 in the
\* neighbouring channel), so that a key that mixes channels collides
RGB == {<<10, 5, 20>>, <<20, 5, 10>>, <<255, 0, 0>>, <<0, 1, 0>>}
Dims == ((1..MaxDim) \X (1..MaxDim)) \cup {<<1, n>> : n \in 1..MaxStrip} \cup {<<n, 1>> : n \in 1..MaxStrip}

Init == kind = "start" /\ w = 0 /\ h = 0 /\ px = <<>> /\ first = 0 /\ entries = <<>> /\ failure = 0 /\ transparent = <<>>
Image == /\ kind = "start"
         /\ \E d \in Dims : \E p \in [1..(d[1] * d[2]) -> Colours] :
              kind' = "extrude" /\ w' = d[1] /\ h' = d[2] /\ px' = p
         /\ UNCHANGED <<first, entries, failure, transparent>>
Palette == /\ kind = "start"
           /\ \E f \in {0, 254} : \E n \in 1..MaxPal : \E es \in [1..n -> RGB] : \E fl \in {0, 7} : \E tr \in {<<>>, <<3>>} :
                kind' = "map" /\ first' = f /\ entries' = es /\ failure' = fl /\ transparent' = tr
           /\ UNCHANGED <<w, h, px>>
Next == Image \/ Palette
Spec == Init /\ [][Next]_vars

\* defining equations of the extrusion on the model: size, interior, the four borders and corners
ExtrudeInv == kind = "extrude" =>
  LET e == Extrude(px, w, h)
      at(x, y) == e[y * (w + 2) + x + 1]
      src(x, y) == px[y * w + x + 1]
  IN /\ Len(e) = (w + 2) * (h + 2)
     /\ \A x \in 0..(w - 1), y \in 0..(h - 1) : at(x + 1, y + 1) = src(x, y)
     /\ \A x \in 0..(w - 1) : at(x + 1, 0) = src(x, 0) /\ at(x + 1, h + 1) = src(x, h - 1)
     /\ \A y \in 0..(h - 1) : at(0, y + 1) = src(0, y) /\ at(w + 1, y + 1) = src(w - 1, y)
     /\ at(0, 0) = src(0, 0) /\ at(w + 1, 0) = src(w - 1, 0) /\ at(0, h + 1) = src(0, h - 1) /\ at(w + 1, h + 1) = src(w - 1, h - 1)
Export == kind = "start" \/ PrintT(<<"PROG", ToJson(IF kind = "extrude" THEN [kind |-> kind, w |-> w, h |-> h, px |-> px]
                                                    ELSE [kind |-> kind, first |-> first, entries |-> entries, failure |-> failure, transparent |-> transparent])>>)
=============================================================================
