SPECIFICATION Spec
CONSTANTS MaxInt = 2
MaxExtra = 1
INVARIANTS FoldIsState NoBad NeverBeyond TruncatedFails ScriptIndependent OkMeansAll HardReturned
PROPERTY Terminates
CHECK_DEADLOCK FALSE
