-------------------------------- MODULE AseZlib --------------------------------
(* RFC 1950/1951 decompression of streams that contain compressed deflate blocks.  *)
(* Stored blocks are decoded in TLA+ (AseParse!InflateBlocks); Huffman-coded        *)
(* blocks cannot reasonably be decoded in TLA+, so ZInflate is supplied as a TLC     *)
(* module override (AseZlib.java, java.util.zip.Inflater). It returns               *)
(*   <<TRUE, data>>  for a complete, checksum-correct zlib stream (trailing bytes    *)
(*                   after the stream are ignored), <<FALSE, <<>>>> otherwise.       *)
(* AseParse checks on every stored stream that both decoders agree.                 *)
EXTENDS Integers, Sequences
ZInflate(z) == CHOOSE r \in {} : TRUE
=============================================================================
