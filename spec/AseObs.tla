-------------------------------- MODULE AseObs --------------------------------
(* The canonical observation of a loaded sprite (what the public API reports) *)
(* as a function of the parser state, and its comparison with an observation  *)
(* recorded from the implementation. Failing(ps, obs) is the set of names of  *)
(* the observation fields that differ from what the specification determines. *)
EXTENDS AseRender, Functions

Chk(name, ok) == IF ok THEN {} ELSE {name}
Idx0(n) == [i \in 1..n |-> i - 1]

\* C01 "iteration visits every entity exactly once in index order" - also through the adapters std builds on nth / size_hint:
\* the ids from, from + step, ... below n (the harness reports at most 48 of them)
IterIds(n, from, step) ==
  LET k == IF from >= n THEN 0 ELSE Min2(48, (n - from + step - 1) \div step) IN [j \in 1..k |-> from + (j - 1) * step]
IterProtocolOk(p, n) ==
  /\ p.skip1 = IterIds(n, 1, 1) /\ p.skip_last2 = IterIds(n, Max2(n - 2, 0), 1)
  /\ p.step2 = IterIds(n, 0, 2) /\ p.step3 = IterIds(n, 0, 3)
  /\ p.nth1 = (IF n > 1 THEN <<1>> ELSE <<>>) /\ p.after_nth1 = IterIds(n, 2, 1)
  /\ p.nth_len_none /\ p.nth_max_none /\ p.next_then_nth_max_none
  /\ p.count = n /\ p.last = (IF n > 0 THEN <<n - 1>> ELSE <<>>) /\ p.size_hint_ok /\ p.zip_names

FirstMatch(names, q) ==
  LET S == {i \in DOMAIN names : names[i] = q} IN IF S = {} THEN None ELSE Some(Min(S) - 1)

LayerObs(ps, i) ==
  LET l == ps.layers[i + 1] IN
  [id |-> i, name |-> l.name, flags |-> l.flags, blend |-> l.blend, opacity |-> l.opacity, ltype |-> l.ltype,
   tileset |-> l.tileset, is_tilemap |-> l.ltype = 2, ud |-> l.ud, parent |-> Parent(ps, i)]

TagsOf(ps) == IF IsNone(ps.tags) THEN <<>> ELSE ps.tags[1]
TagObs(t) == [name |-> t.name, from |-> t.from, to |-> t.to, dir |-> t.dir,
              repeat |-> IF t.repeat = 0 THEN None ELSE Some(t.repeat), ud |-> t.ud, get_same |-> TRUE]

PaletteObs(ps) ==
  IF ps.pal.origin = "none" THEN None
  ELSE LET m == ps.pal.m
           ids == SetToSortSeq({i \in DOMAIN m : i < 70000}, <)
       IN Some([count |-> Cardinality(DOMAIN m),
                entries |-> [k \in DOMAIN ids |-> [id |-> ids[k], rgba |-> m[ids[k]].rgba, chan |-> m[ids[k]].rgba,
                                                   name |-> m[ids[k]].name]],
                probe_absent |-> TRUE])

TilesetObs(t) == [id |-> t.id, count |-> t.count, tw |-> t.tw, th |-> t.th, base |-> t.base, name |-> t.name,
                  empty0 |-> t.empty0, ext |-> t.ext, get_same |-> TRUE]
TilesetImagesObs(ps, t, withTiles) ==
  [id |-> t.id,
   image |-> [w |-> t.tw, h |-> t.th * t.count, px |-> TilesetImage(ps, t)],
   tiles |-> [k \in 1..(IF withTiles THEN t.count ELSE 0) |-> [i |-> k - 1, w |-> t.tw, h |-> t.th, px |-> TileImage(ps, t, k - 1)]]]

CelFacts(ps, f, l, dig) ==
  IF HasCel(ps, f, l)
  THEN LET c == CelAt(ps, f, l) IN
       [f |-> f, l |-> l, empty |-> FALSE, x |-> c.x, y |-> c.y, tilemap |-> c.kind = "tilemap", ud |-> c.ud, dig |-> dig]
  ELSE [f |-> f, l |-> l, empty |-> TRUE, x |-> 0, y |-> 0, tilemap |-> FALSE, ud |-> None, dig |-> dig]

CelFactFields == {"f", "l", "empty", "x", "y", "tilemap"}
\* rendered: FALSE for canvases beyond the harness' pixel budget (nothing is rendered, images and digests are absent)
CelEntryFailing(ps, e, rendered) ==
  LET exp == CelFacts(ps, e.f, e.l, "")
      imgOk == rendered => e.image = [w |-> W(ps), h |-> H(ps), px |-> CelImage(ps, e.f, e.l)]
  IN
  Chk("cel.routes_agree", e.r1 = e.r2 /\ e.r1 = e.r3)
  \cup Chk("cel.facts", Restrict(e.r1, CelFactFields) = Restrict(exp, CelFactFields))
  \cup Chk("user_data.cel", e.r1.ud = exp.ud)
  \cup Chk("cel.image", imgOk)
  \* C08: the image of a tilemap cel is the composition of its tiles (named separately so that it reaches C08 as well;
  \* `tilemap.image_is_cel_image` ties Tilemap::image to this image)
  \cup Chk("tilemap.image", exp.tilemap => imgOk)
  \cup Chk("cel.tilemap_some", e.tm = TilemapSome(ps, e.l, e.f))

CelDig(obs, f, l) == LET S == {i \in DOMAIN obs.cels : obs.cels[i].f = f /\ obs.cels[i].l = l}
                     IN obs.cels[CHOOSE i \in S : TRUE].r1.dig

TilemapEntryFailing(ps, obs, e) ==
  IF ~TilemapSome(ps, e.l, e.f) THEN {"tilemap.unexpected"}
  ELSE LET c == CelAt(ps, e.f, e.l)
           ts == TilesetOfLayer(ps, e.l)
       IN Chk("tilemap.size", e.w = TilemapW(ps, ts) /\ e.h = TilemapH(ps, ts))
          \cup Chk("tilemap.tile_size", e.tw = ts.tw /\ e.th = ts.th)
          \cup Chk("tilemap.tile_offsets", e.tox = TileOffX(c, ts) /\ e.toy = TileOffY(c, ts))
          \cup Chk("tilemap.pixel_offsets", e.pox = c.x /\ e.poy = c.y)
          \cup Chk("tilemap.tileset", e.tsid = ts.id)
          \cup Chk("tilemap.lookup", \A k \in DOMAIN e.lookups : e.lookups[k].id = TileAt(c, ts, e.lookups[k].x, e.lookups[k].y))
          \cup Chk("tilemap.lookup_far", \A k \in DOMAIN e.biglookups : e.biglookups[k].id = 0)
          \cup Chk("tilemap.image_is_cel_image", obs.render_ok => (e.dig = CelDig(obs, e.f, e.l) /\ e.iw = W(ps) /\ e.ih = H(ps)))

FrameEntryFailing(ps, e) ==
  Chk("frame.image", e.w = W(ps) /\ e.h = H(ps) /\ e.px = FrameImage(ps, e.f))

\* C02 / C09: pixels that no visible layer's cel covers stay fully transparent - in particular layers hidden
\* directly or through an ancestor contribute nothing (evaluated on small canvases only: cost)
UncoveredFailing(ps, e) ==
  Chk("frame.uncovered_pixels_transparent",
      (SatMul(W(ps), H(ps)) <= 64 /\ Len(e.px) = W(ps) * H(ps)) =>
        LET ls == Contributing(ps, e.f)
            ds == [k \in DOMAIN ls |-> Drawn(ps, CelAt(ps, e.f, ls[k]))]
        IN \A i \in 1..(W(ps) * H(ps)) :
             \/ e.px[i] = Transparent
             \/ \E k \in DOMAIN ds : IsSome(SrcAt(ps, ds[k], (i - 1) % W(ps), (i - 1) \div W(ps))))

\* C19: a frame in which exactly one visible layer has a cel renders exactly that cel's image
SingleLayerFailing(ps, obs, e) ==
  LET ls == Contributing(ps, e.f) IN
  Chk("frame.single_layer_equals_cel", Len(ls) = 1 => e.dig = CelDig(obs, e.f, ls[1]))

Small(n) == n <= 64
LayerAttr == {"id", "name", "flags", "blend", "opacity", "ltype", "tileset", "is_tilemap"}
TagAttr == {"name", "from", "to", "dir", "repeat", "get_same"}

Failing(ps, obs) ==
  IF obs.panics # <<>> THEN {"panics"}
  ELSE
  LET nl == NL(ps)
      nf == ps.hdr.nframes
      names == [i \in 1..nl |-> ps.layers[i].name]
      tags == TagsOf(ps)
      tnames == [i \in DOMAIN tags |-> tags[i].name]
  IN
     Chk("width", obs.w = W(ps)) \cup Chk("height", obs.h = H(ps)) \cup Chk("size", obs.size = <<W(ps), H(ps)>>)
  \cup Chk("num_frames", obs.nframes = nf) \cup Chk("num_layers", obs.nlayers = nl)
  \cup Chk("pixel_format", obs.fmt = Fmt(ps.hdr.depth) /\ obs.bpp = Bpp(ps.hdr.depth))
  \cup Chk("transparent_index", LET t == IF ps.hdr.depth = 8 THEN Some(ps.hdr.tidx) ELSE None IN obs.tidx = t /\ obs.tidx2 = t)
  \cup Chk("is_indexed", obs.indexed = (ps.hdr.depth = 8))
  \cup Chk("durations", obs.durations = ps.durations)
  \cup Chk("frame_ids", obs.frame_ids = Idx0(nf))
  \cup Chk("layers", /\ Len(obs.layers) = nl
                     /\ \A i \in 1..nl : Restrict(obs.layers[i], LayerAttr) = Restrict(LayerObs(ps, i - 1), LayerAttr))
  \cup Chk("parents", Len(obs.layers) = nl /\ LET par == ParentVec(ps) IN \A i \in 1..nl : obs.layers[i].parent = par[i])
  \cup Chk("user_data.layer", Len(obs.layers) = nl /\ \A i \in 1..nl : obs.layers[i].ud = ps.layers[i].ud)
  \cup Chk("visible", obs.visible = VisibleVec(ps))
  \cup Chk("layers_iter", obs.iter_ids = Idx0(nl) /\ IterProtocolOk(obs.iter_protocol, nl))
  \cup Chk("layer_by_name", /\ \A k \in DOMAIN obs.by_name : obs.by_name[k].hit = FirstMatch(names, obs.by_name[k].q)
                            /\ Small(nl) => Range(names) \subseteq {obs.by_name[k].q : k \in DOMAIN obs.by_name})
  \cup Chk("num_tags", obs.ntags = Len(tags))
  \cup Chk("tags", /\ Len(obs.tags) = Len(tags)
                   /\ \A i \in DOMAIN tags : Restrict(obs.tags[i], TagAttr) = Restrict(TagObs(tags[i]), TagAttr))
  \cup Chk("user_data.tag", Len(obs.tags) = Len(tags) /\ \A i \in DOMAIN tags : obs.tags[i].ud = tags[i].ud)
  \cup Chk("get_tag_out_of_range", obs.tag_oob_none)
  \cup Chk("tag_by_name", /\ \A k \in DOMAIN obs.tag_by_name : obs.tag_by_name[k].hit = FirstMatch(tnames, obs.tag_by_name[k].q)
                          /\ Small(Len(tags)) => Range(tnames) \subseteq {obs.tag_by_name[k].q : k \in DOMAIN obs.tag_by_name})
  \cup Chk("slices", /\ Len(obs.slices) = Len(ps.slices)
                     /\ \A i \in DOMAIN ps.slices : obs.slices[i].name = ps.slices[i].name /\ obs.slices[i].keys = ps.slices[i].keys)
  \cup Chk("user_data.slice", Len(obs.slices) = Len(ps.slices) /\ \A i \in DOMAIN ps.slices : obs.slices[i].ud = ps.slices[i].ud)
  \cup Chk("palette", obs.palette = PaletteObs(ps))
  \cup Chk("external_files", /\ Len(obs.extfiles) = Len(ps.extfiles)
                             /\ Range(obs.extfiles) = {[id |-> x.id, id2 |-> x.id, name |-> x.name, get_same |-> TRUE] : x \in Range(ps.extfiles)})
  \cup Chk("tilesets", /\ Len(obs.tilesets) = Len(ps.tilesets) /\ obs.ntilesets = Len(ps.tilesets)
                       /\ obs.tilesets_empty = (ps.tilesets = <<>>)
                       /\ Range(obs.tilesets) = {TilesetObs(t) : t \in Range(ps.tilesets)})
  \cup Chk("tileset_images", LET small == {t \in Range(ps.tilesets) : SatMul(t.count, SatMul(t.tw, t.th)) <= 65536} IN
                             /\ Len(obs.tileset_images) = Cardinality(small)
                             /\ Range(obs.tileset_images) = {TilesetImagesObs(ps, t, TRUE) : t \in small})
  \cup Chk("user_data.sprite", obs.sprite_ud = ps.spriteUD)
  \cup Chk("cels_complete", (Small(nf) /\ Small(nl)) =>
             {<<obs.cels[k].f, obs.cels[k].l>> : k \in DOMAIN obs.cels} = (0..(nf - 1)) \X (0..(nl - 1)) /\ Len(obs.cels) = nf * nl)
  \cup UNION {CelEntryFailing(ps, obs.cels[k], obs.render_ok) : k \in DOMAIN obs.cels}
  \cup Chk("tilemaps_complete", Len(obs.tilemaps) = Cardinality({k \in DOMAIN obs.cels : obs.cels[k].tm}))
  \cup UNION {TilemapEntryFailing(ps, obs, obs.tilemaps[k]) : k \in DOMAIN obs.tilemaps}
  \cup Chk("tilemap_out_of_range", obs.tilemap_oob_none)
  \cup Chk("frames_complete", (Small(nf) /\ obs.render_ok) => Len(obs.frames) = nf /\ {obs.frames[k].f : k \in DOMAIN obs.frames} = 0..(nf - 1))
  \cup UNION {FrameEntryFailing(ps, obs.frames[k]) \cup SingleLayerFailing(ps, obs, obs.frames[k]) \cup UncoveredFailing(ps, obs.frames[k])
              : k \in DOMAIN obs.frames}
  \cup Chk("debug", obs.debug_ok)

\* What is demanded of a sprite that loaded although the file is out of contract (Outcome = "either"):
\* every accessor returned normally and images have their documented dimensions (C05).
UsableFailing(obs) ==
  Chk("panics", obs.panics = <<>>)
  \cup Chk("frame.dims", \A k \in DOMAIN obs.frames : obs.frames[k].w = obs.w /\ obs.frames[k].h = obs.h)
  \cup Chk("cel.dims", \A k \in DOMAIN obs.cels : ("image" \in DOMAIN obs.cels[k]) => (obs.cels[k].image.w = obs.w /\ obs.cels[k].image.h = obs.h))

\* What is demanded in addition when the specification followed the whole file (no early stop) although it is out of
\* contract: a cel image is transparent outside the rectangle the cel declares (C06: "the cel's stored pixels placed at its
\* offset (clipped)") - whatever surplus or missing data the chunk carries. Image cels and links to image cels only.
InRect(d, X, Y) == X >= d.x /\ X < d.x + d.w /\ Y >= d.y /\ Y < d.y + d.h
CelOutsideOk(ps, e) ==
  ("image" \in DOMAIN e /\ "px" \in DOMAIN e.image /\ HasCel(ps, e.f, e.l)) =>
    LET c == CelAt(ps, e.f, e.l)
        known == c.kind = "raw" \/ (c.kind = "linked" /\ c.link < ps.hdr.nframes /\ HasCel(ps, c.link, c.l) /\ CelAt(ps, c.link, c.l).kind = "raw")
    IN known =>
         LET d == Drawn(ps, c) IN
         /\ e.image.w = W(ps) /\ e.image.h = H(ps) /\ Len(e.image.px) = W(ps) * H(ps)
         /\ \A i \in 1..Len(e.image.px) : InRect(d, (i - 1) % W(ps), (i - 1) \div W(ps)) \/ e.image.px[i][4] = 0
WeakFailing(ps, obs) ==
  IF obs.render_ok /\ SatMul(W(ps), H(ps)) <= 4096
  THEN UNION {Chk("cel.outside_rect_transparent", CelOutsideOk(ps, obs.cels[k])) : k \in DOMAIN obs.cels}
  ELSE {}
=============================================================================
