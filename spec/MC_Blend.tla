--------------------------------- MODULE MC_Blend ---------------------------------
(* C17 / C03 on the model: laws of the blend algebra checked over complete       *)
(* sub-spaces. The single variable x ranges over 0..255; each invariant          *)
(* quantifies over the other byte(s), so the 256 states partition the space      *)
(* across TLC workers.                                                           *)
(*   AlphaLawInv   : all 2^24 (Ba, Sa, op): the alpha of every non-Normal mode   *)
(*                   equals the Normal-mode alpha (on the colour-free skeleton)  *)
(*   NormalAlphaInv: result alpha in 0..255, >= both scaled alphas' bound        *)
(*   ProductInv    : all 2^16 opacity products in 0..255, 255 neutral, 0 absorbing*)
(*   ChannelInv    : all 2^16 (b, s) of each of the 14 channel functions in 0..255*)
(*   LerpInv       : Normal's divisor ra >= sa > 0 whenever both alphas are > 0  *)
(*   SkeletonInv   : the skeleton is the alpha projection of Blend (lattice)     *)
(*   LatticeLawsInv: the four C17 laws + range on Blend over a boundary lattice  *)
EXTENDS AseBlend, SequencesExt

CONSTANTS Lattice, Ops
VARIABLES g, x
\* two-level fan-out so that TLC's workers share the 256 values of x (a worker checks the
\* invariants of the successors it generates)
Init == g = -1 /\ x = -1
Next == \/ g = -1 /\ g' \in 0..15 /\ x' = -1
        \/ g >= 0 /\ x = -1 /\ x' \in (16 * g)..(16 * g + 15) /\ g' = g
Spec == Init /\ [][Next]_<<g, x>>
On(P) == x >= 0 => P

AlphaLawInv == x < 0 \/ \A Ba \in 0..255, Sa \in 0..255 : AlphaOf(TRUE, Ba, Sa, x) = NormalAlpha(Ba, Sa, x)
NormalAlphaInv == x < 0 \/ \A Ba \in 0..255, Sa \in 0..255 :
  LET a == NormalAlpha(Ba, Sa, x) IN a \in 0..255 /\ (Ba > 0 => a >= Ba) /\ (x = 0 /\ Ba > 0 => a = Ba)
ProductInv == x < 0 \/ \A c \in 0..255 :
  /\ CelOpacity(x, c) \in 0..255 /\ CelOpacity(x, c) = CelOpacity(c, x)
  /\ CelOpacity(255, c) = c /\ CelOpacity(0, c) = 0 /\ CelOpacity(x, c) <= Min2(x, c)
ChannelInv == x < 0 \/ \A s \in 0..255 : \A m \in IntegerChannelModes \cup {9} : Chan(m, x, s) \in 0..255
LerpInv == x < 0 \/ \A Ba \in 1..255, Sa \in 1..255 :
  LET sa == MulUn8(Sa, x) IN sa > 0 => LET ra == sa + Ba - MulUn8(Ba, sa) IN ra >= sa /\ ra <= 255 /\ ra >= Ba

Px == Lattice \X Lattice \X Lattice \X Lattice
\* the lattice work is spread over the states: state x handles mode x % 19 and the backdrop red value LSeq[(x \div 19) % n + 1]
LSeq == SetToSortSeq(Lattice, <)
MyMode == x % 19
MyRed == LSeq[((x \div 19) % Len(LSeq)) + 1]
Mine == x >= 0 /\ x < 19 * Len(LSeq)
SkeletonInv == Mine =>
  \A B \in Px, S \in Px : B[1] = MyRed => \A op \in Ops : Blend(MyMode, B, S, op)[4] = AlphaOf(MyMode # 0, B[4], S[4], op)
LatticeLawsInv == Mine =>
  \A B \in Px, S \in Px : B[1] = MyRed => LET m == MyMode IN \A op \in Ops :
     /\ InRange(Blend(m, B, S, op))
     /\ AlphaLaw(m, B, S, op) /\ TransparentSourceLaw(m, B, S, op) /\ TransparentBackdropLaw(m, B, S, op)
     /\ OpaqueNormalLaw(B, S)
=============================================================================
