------------------------------ MODULE AseRender ------------------------------
(* What the images are: cel images, frame images (bottom-to-top composition  *)
(* of visible layers), tilemap lookups and tileset images, as functions of a  *)
(* loaded parser state `ps` (AseLoad). Only applied when Outcome(ps) = "ok".  *)
EXTENDS AseLoad, AseBlend

W(ps) == ps.hdr.w
H(ps) == ps.hdr.h

\* stored pixel -> RGBA (src/pixel.rs)
ToRGBA(ps, p, background) ==
  CASE ps.hdr.depth = 32 -> p
    [] ps.hdr.depth = 16 -> <<p[1], p[1], p[1], p[2]>>
    [] OTHER -> LET c == ps.pal.m[p[1]].rgba
                IN <<c[1], c[2], c[3], IF p[1] = ps.hdr.tidx /\ ~background THEN 0 ELSE c[4]>>

\* a linked cel is drawn exactly like the cel of the same layer in the frame it links to
Drawn(ps, c) == IF c.kind = "linked" THEN CelAt(ps, c.link, c.l) ELSE c

TilesetOfLayer(ps, l) == ps.tilesets[TilesetIdx(ps, ps.layers[l + 1].tileset[1])]

\* source pixel that drawn cel d puts at canvas position (X, Y): None if d does not cover it
SrcAt(ps, d, X, Y) ==
  LET rx == X - d.x
      ry == Y - d.y
  IN IF d.kind = "raw"
     THEN IF rx >= 0 /\ rx < d.w /\ ry >= 0 /\ ry < d.h
          THEN Some(ToRGBA(ps, d.px[ry * d.w + rx + 1], IsBackground(ps, d.l)))
          ELSE None
     ELSE LET ts == TilesetOfLayer(ps, d.l) IN
          IF rx >= 0 /\ rx < d.w * ts.tw /\ ry >= 0 /\ ry < d.h * ts.th
          THEN LET id == d.tiles[(ry \div ts.th) * d.w + (rx \div ts.tw) + 1]
               IN Some(ToRGBA(ps, ts.px[id * ts.tw * ts.th + (ry % ts.th) * ts.tw + (rx % ts.tw) + 1], FALSE))
          ELSE None

\* one compositing step: cel c (of layer c.l) over backdrop B at (X, Y)
Over(ps, B, c, X, Y) ==
  LET d == Drawn(ps, c)
      ly == ps.layers[c.l + 1]
      s == SrcAt(ps, d, X, Y)
  IN IF IsNone(s) THEN B ELSE Blend(ly.blend, B, s[1], CelOpacity(ly.opacity, d.opacity))

\* C06: the image of one cel
CelPixel(ps, f, l, X, Y) == IF HasCel(ps, f, l) THEN Over(ps, Transparent, CelAt(ps, f, l), X, Y) ELSE Transparent
CelImage(ps, f, l) == [i \in 1..(W(ps) * H(ps)) |-> Canon(CelPixel(ps, f, l, (i - 1) % W(ps), (i - 1) \div W(ps)))]

\* C02: the frame image. The layers that contribute, lowest index first.
Contributing(ps, f) == LET vis == VisibleVec(ps) IN SelectSeq([i \in 1..NL(ps) |-> i - 1], LAMBDA l : HasCel(ps, f, l) /\ vis[l + 1])
RECURSIVE Compose(_, _, _, _, _, _)
Compose(ps, cs, k, B, X, Y) == IF k > Len(cs) THEN B ELSE Compose(ps, cs, k + 1, Over(ps, B, cs[k], X, Y), X, Y)
FrameImage(ps, f) ==
  LET ls == Contributing(ps, f)
      cs == TLCEval([k \in DOMAIN ls |-> CelAt(ps, f, ls[k])])      \* looked up once, not once per pixel
  IN [i \in 1..(W(ps) * H(ps)) |-> Canon(Compose(ps, cs, 1, Transparent, (i - 1) % W(ps), (i - 1) \div W(ps)))]

-----------------------------------------------------------------------------
\* C08: tilemaps and tilesets
TilemapSome(ps, l, f) ==
  /\ l < NL(ps) /\ f < ps.hdr.nframes
  /\ ps.layers[l + 1].ltype = 2
  /\ TilesetIdx(ps, ps.layers[l + 1].tileset[1]) # 0
  /\ HasCel(ps, f, l) /\ CelAt(ps, f, l).kind = "tilemap"
TilemapW(ps, ts) == CeilDiv(W(ps), ts.tw)
TilemapH(ps, ts) == CeilDiv(H(ps), ts.th)
TileOffX(c, ts) == TDiv(c.x, ts.tw)
TileOffY(c, ts) == TDiv(c.y, ts.th)
\* tile lookup: outside the stored area the empty tile 0
TileAt(c, ts, x, y) ==
  LET sx == x - TileOffX(c, ts)
      sy == y - TileOffY(c, ts)
  IN IF sx < 0 \/ sy < 0 \/ sx >= c.w \/ sy >= c.h THEN 0 ELSE c.tiles[sy * c.w + sx + 1]
TileImage(ps, ts, i) == [k \in 1..(ts.tw * ts.th) |-> Canon(ToRGBA(ps, ts.px[i * ts.tw * ts.th + k], FALSE))]
TilesetImage(ps, ts) == [k \in 1..(ts.count * ts.tw * ts.th) |-> Canon(ToRGBA(ps, ts.px[k], FALSE))]
=============================================================================
