--------------------------------- MODULE MC_Load ---------------------------------
(* The loader machine driven by a nondeterministic file writer: every chunk program  *)
(* of up to MaxLen chunks over a small concrete alphabet, spread over up to two       *)
(* frames. The alphabet deliberately contains programs that are out of contract      *)
(* (cel on a group layer, tilemap cel without tileset, link without target, user     *)
(* data without entity ...) so that all three outcome classes are reached.           *)
(* `ps` is advanced by AseLoad!ApplyChunk, one action per chunk (machine-shaped);     *)
(* every reachable state is a complete program and is exported for replay.            *)
EXTENDS AseObs, AseParse, Json

CONSTANTS MaxLen, Depth
VARIABLES prog, ps, frame
vars == <<prog, ps, frame>>

Hdr == [nframes |-> 2, w |-> 2, h |-> 1, depth |-> Depth, tidx |-> 0, pixw |-> 1, pixh |-> 1, speed |-> 7, magic |-> 42464]
P(v) == CASE Depth = 32 -> <<v, 10, 20, 200>> [] Depth = 16 -> <<v, 200>> [] OTHER -> <<v % 2>>
Layer(lt, flags, level) == [k |-> "layer", flags |-> flags, ltype |-> lt, level |-> level, blend |-> IF lt = 0 THEN 1 ELSE 0,
                            opacity |-> 200, name |-> <<76, 48 + lt>>, tileset |-> IF lt = 2 THEN <<"0">> ELSE <<>>]
Cel(l, ct, x) == [k |-> "cel", layer |-> l, x |-> x, y |-> 0, opacity |-> 255, ctype |-> ct, w |-> 1, h |-> 1,
                  px |-> IF ct \in {0, 2} THEN <<P(90 + l)>> ELSE <<>>, link |-> 0, tiles |-> IF ct = 3 THEN <<1>> ELSE <<>>,
                  bits |-> 32, masks |-> <<536870911, 0, 0, 0>>]
Tileset == [k |-> "tileset", id |-> "0", flags |-> 6, count |-> 2, tw |-> 1, th |-> 1, base |-> 1, name |-> <<84>>,
            ext |-> [file |-> "0", ts |-> "0"], px |-> <<P(0), P(33)>>]
Fixed == <<
  [k |-> "tags", tags |-> <<[from |-> 0, to |-> 1, dir |-> 1, repeat |-> 2, name |-> <<116>>]>>],
  [k |-> "slice", name |-> <<115>>, flags |-> 3,
   keys |-> <<[frame |-> "1", x |-> "-2", y |-> "3", w |-> "4", h |-> "5", s9 |-> [cx |-> "1", cy |-> "-1", cw |-> "2", ch |-> "3"], pivot |-> [x |-> "-7", y |-> "8"]]>>],
  [k |-> "pal", first |-> 0, last |-> 1, total |-> "2", entries |-> <<[flags |-> 0, rgba |-> <<1, 2, 3, 255>>, name |-> <<>>], [flags |-> 1, rgba |-> <<4, 5, 6, 100>>, name |-> <<110>>]>>],
  [k |-> "oldpal04", packets |-> <<[skip |-> 0, count |-> 2, rgb |-> <<<<7, 8, 9>>, <<10, 11, 12>>>>]>>],
  [k |-> "celextra"],
  [k |-> "extfiles", entries |-> <<[id |-> "5", name |-> <<101>>]>>],
  Tileset
>>
UdAt(pos) == [k |-> "ud", text |-> <<<<85, 48 + pos>>>>, color |-> IF pos % 2 = 0 THEN <<>> ELSE <<<<pos, 1, 2, 3>>>>]

NL0 == Len(ps.layers)
Candidates ==
     {Layer(0, 1, 0), Layer(0, 8, 0), Layer(1, 1, 0), Layer(2, 1, 0)}
\cup (IF NL0 > 0 THEN {Layer(0, 1, 1)} ELSE {})                                   \* nested (or not a forest when the parent is no group: still explored)
\cup {Cel(l, ct, x) : l \in 0..(NL0 - 1), ct \in {0, 2, 3}, x \in {0, 1}}
\cup (IF frame = 1 THEN {[Cel(l, 1, 0) EXCEPT !.link = 0] : l \in 0..(NL0 - 1)} ELSE {})
\cup {Fixed[i] : i \in DOMAIN Fixed}
\cup {UdAt(Len(prog) + 1)}

Init == prog = <<>> /\ frame = 0 /\ ps = BeginFrame(InitPS(Hdr), 0, 11, 61946)
AddChunk == /\ Len(prog) < MaxLen
            /\ \E c \in Candidates :
                 /\ prog' = Append(prog, [f |-> frame, c |-> c])
                 /\ ps' = ApplyChunk(ps, c)
            /\ UNCHANGED frame
NextFrame == /\ frame = 0
             /\ frame' = 1 /\ ps' = BeginFrame(ps, 1, 22, 61946) /\ UNCHANGED prog
Next == AddChunk \/ NextFrame
Spec == Init /\ [][Next]_vars

ChunksOf(f) == LET idx == SelectSeq([i \in DOMAIN prog |-> i], LAMBDA i : prog[i].f = f) IN [k \in DOMAIN idx |-> prog[idx[k]].c]
Program == [hdr |-> Hdr, frames |-> <<[dur |-> 11, magic |-> 61946, chunks |-> ChunksOf(0)], [dur |-> 22, magic |-> 61946, chunks |-> ChunksOf(1)]>>]

\* the incremental machine agrees with the whole-program fold (once both frames have been started)
FoldInv == frame = 1 => Load(Program) = Validate(ps)
\* whenever the specification calls a program well-formed, everything the API must report is defined
\* (TLC raises an error if any operator of AseRender / AseObs is applied outside its domain)
RenderDefinedInv ==
  frame = 1 =>
    LET fin == Validate(ps) IN
    Outcome(fin) = "ok" =>
      /\ \A f \in 0..1 : Len(FrameImage(fin, f)) = 2
      /\ \A f \in 0..1, l \in 0..(NL(fin) - 1) : Len(CelImage(fin, f, l)) = 2 /\ (TilemapSome(fin, l, f) \in BOOLEAN)
      /\ \A l \in 0..(NL(fin) - 1) : (Visible(fin, l) \in BOOLEAN) /\ (Parent(fin, l) \in {None} \cup {Some(j) : j \in 0..(l - 1)})
\* cel chunks of a frame may be stored in any order (the cel table is a function of the set of cel chunks)
CelOrderInv ==
  frame = 1 =>
    LET fin == Validate(ps) IN
    Outcome(fin) = "ok" =>
      \A a, b \in DOMAIN fin.cels : (a # b) => <<fin.cels[a].f, fin.cels[a].l>> # <<fin.cels[b].f, fin.cels[b].l>>
\* ---- the byte level: Encode and Decode are inverse as far as the loader can tell, on every enumerated program ----
\* encoding-only fields (unused header/layer/cel fields, padding, count field) take their defaults
FullChunk(c) ==
  c @@ CASE c.k = "layer" -> [dw |-> 0, dh |-> 0, rsv |-> 0] [] c.k = "cel" -> [rsv |-> 0]
         [] c.k = "tags" -> [x |-> 0] [] c.k = "slice" -> [rsv |-> "0"] [] c.k = "celextra" -> [body |-> <<1, 2, 3>>]
         [] c.k = "pal" -> [x |-> 0] [] OTHER -> [x |-> 0]
FullTags(c) == IF c.k = "tags" THEN [c EXCEPT !.tags = [i \in DOMAIN c.tags |-> c.tags[i] @@ [color |-> "0"]]] ELSE c
FullExt(c) == IF c.k = "extfiles" THEN [c EXCEPT !.entries = [i \in DOMAIN c.entries |-> c.entries[i] @@ [etype |-> 0]]] ELSE c
FullProgram ==
  [hdr |-> Hdr @@ [flags |-> "0", fsize |-> "0", ncolors |-> 0, grid |-> <<0, 0>>, gridsz |-> <<0, 0>>, rsv |-> 0],
   frames |-> [i \in 1..2 |-> [dur |-> Program.frames[i].dur, magic |-> 61946, rsv |-> 0, count_field |-> IF i = 1 THEN "both" ELSE "old",
                                chunks |-> [k \in DOMAIN Program.frames[i].chunks |-> FullExt(FullTags(FullChunk(Program.frames[i].chunks[k])))],
                                pads |-> [k \in DOMAIN Program.frames[i].chunks |-> k % 3]]],
   trailing |-> <<9, 9>>]
RoundTripInv ==
  frame = 1 =>
    LET b == Encode(FullProgram)
        d == Decode(b)
    IN /\ d.t = "ok"
       /\ Load(d.prog) = Load(Program)
       /\ EndOfFrames(b) = Len(b) - 2                           \* two trailing bytes after the last frame
       /\ OutcomeOfBytes(b) = Outcome(Load(Program))

Export == frame = 1 => PrintT(<<"PROG", ToJson([outcome |-> Outcome(Validate(ps)), prog |-> Program])>>)
=============================================================================
