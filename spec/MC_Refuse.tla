------------------------------- MODULE MC_Refuse -------------------------------
(* C15: documented-unsupported features are refused. The environment picks a   *)
(* host program and switches ONE unsupported feature on at ONE position where  *)
(* it can occur (or none). RefusalInv: the loader machine ends in "err" exactly *)
(* when a feature is switched on; the unswitched host must load.               *)
EXTENDS AseObs, Json

VARIABLES host, sw
vars == <<host, sw>>

Hdr(depth) == [nframes |-> 1, w |-> 2, h |-> 2, depth |-> depth, tidx |-> 0, pixw |-> 1, pixh |-> 1, speed |-> 100, magic |-> 42464]
Layer(lt, ts) == [k |-> "layer", flags |-> 1, ltype |-> lt, level |-> 0, blend |-> 0, opacity |-> 255, name |-> <<76>>, tileset |-> ts]
Px(depth, v) == CASE depth = 32 -> <<v, v, v, 255>> [] depth = 16 -> <<v, 255>> [] OTHER -> <<v % 2>>
RawCel(depth, l) == [k |-> "cel", layer |-> l, x |-> 0, y |-> 0, opacity |-> 255, ctype |-> 2, w |-> 1, h |-> 1, px |-> <<Px(depth, 1)>>,
                     link |-> 0, tiles |-> <<>>, bits |-> 32, masks |-> <<536870911, 0, 0, 0>>]
MapCel(l) == [k |-> "cel", layer |-> l, x |-> 0, y |-> 0, opacity |-> 255, ctype |-> 3, w |-> 1, h |-> 1, px |-> <<>>,
              link |-> 0, tiles |-> <<1>>, bits |-> 32, masks |-> <<536870911, 0, 0, 0>>]
Tileset(depth) == [k |-> "tileset", id |-> "0", flags |-> 6, count |-> 2, tw |-> 1, th |-> 1, base |-> 1, name |-> <<84>>,
                   ext |-> [file |-> "0", ts |-> "0"], px |-> <<Px(depth, 0), Px(depth, 1)>>]
Tags == [k |-> "tags", tags |-> <<[from |-> 0, to |-> 0, dir |-> 0, repeat |-> 0, name |-> <<97>>],
                                  [from |-> 0, to |-> 0, dir |-> 2, repeat |-> 1, name |-> <<98>>]>>]
Profile == [k |-> "profile", ptype |-> 1, flags |-> 0, gamma |-> "0", icc |-> <<1, 2, 3, 4>>]
Pal == [k |-> "pal", first |-> 0, last |-> 1, total |-> "2",
        entries |-> <<[flags |-> 0, rgba |-> <<0, 0, 0, 255>>, name |-> <<>>], [flags |-> 0, rgba |-> <<9, 9, 9, 255>>, name |-> <<>>]>>]
Host(depth) ==
  [hdr |-> Hdr(depth),
   frames |-> <<[dur |-> 100, magic |-> 61946,
                 chunks |-> <<Profile, Pal, Tileset(depth), Layer(0, <<>>), Layer(2, <<"0">>), Tags, RawCel(depth, 0), MapCel(1)>>]>>]
Hosts == <<Host(32), Host(16), Host(8)>>
NChunks == 8

\* a switch: <<feature, position (chunk index, 0 = header), sub-position, value>>
Switches ==
     {<<"pixel_ratio", 0, 0, v>> : v \in {<<2, 1>>, <<1, 2>>, <<3, 3>>, <<255, 1>>, <<2, 2>>}}
\cup {<<"depth", 0, 0, v>> : v \in {0, 1, 4, 15, 24, 31, 33, 64}}
\cup {<<"icc_profile", 1, 0, 2>>}
\cup {<<"fixed_gamma", 1, 0, f>> : f \in {1, 3}}
\cup {<<"fixed_gamma_type_none", 1, 0, f>> : f \in {1, 3}}
\cup {<<"tileset_not_embedded", 3, 0, f>> : f \in {0, 1, 4, 5}}
\cup {<<"layer_type", p, 0, v>> : p \in {4, 5}, v \in {3, 4, 65535}}
\cup {<<"blend_mode", p, 0, v>> : p \in {4, 5}, v \in {19, 20, 255, 65535}}
\cup {<<"anim_direction", 6, t, v>> : t \in {1, 2}, v \in {3, 4, 255}}
\cup {<<"cel_type", p, 0, v>> : p \in {7, 8}, v \in {4, 5, 65535}}
\cup {<<"bits_per_tile", 8, 0, v>> : v \in {0, 8, 16, 31, 33}}

Apply(prog, s) ==
  CASE s[1] = "none" -> prog
    [] s[1] = "pixel_ratio" -> [prog EXCEPT !.hdr.pixw = s[4][1], !.hdr.pixh = s[4][2]]
    [] s[1] = "depth" -> [prog EXCEPT !.hdr.depth = s[4]]
    [] s[1] = "icc_profile" -> [prog EXCEPT !.frames[1].chunks[s[2]].ptype = s[4]]
    [] s[1] = "fixed_gamma" -> [prog EXCEPT !.frames[1].chunks[s[2]].flags = s[4]]
    [] s[1] = "fixed_gamma_type_none" -> [prog EXCEPT !.frames[1].chunks[s[2]].flags = s[4], !.frames[1].chunks[s[2]].ptype = 0]
    [] s[1] = "tileset_not_embedded" -> [prog EXCEPT !.frames[1].chunks[s[2]].flags = s[4]]
    [] s[1] = "layer_type" -> [prog EXCEPT !.frames[1].chunks[s[2]].ltype = s[4]]
    [] s[1] = "blend_mode" -> [prog EXCEPT !.frames[1].chunks[s[2]].blend = s[4]]
    [] s[1] = "anim_direction" -> [prog EXCEPT !.frames[1].chunks[s[2]].tags[s[3]].dir = s[4]]
    [] s[1] = "cel_type" -> [prog EXCEPT !.frames[1].chunks[s[2]].ctype = s[4]]
    [] s[1] = "bits_per_tile" -> [prog EXCEPT !.frames[1].chunks[s[2]].bits = s[4]]
Program == Apply(Hosts[host], sw)

Init == host \in DOMAIN Hosts /\ sw = <<"none", 0, 0, 0>>
Next == sw[1] = "none" /\ sw' \in Switches /\ UNCHANGED host
Spec == Init /\ [][Next]_vars

RefusalInv ==
  LET ps == Load(Program) IN
  IF sw[1] = "none" THEN Outcome(ps) = "ok" ELSE (Outcome(ps) = "err" /\ ps.must # {})
Export == PrintT(<<"PROG", ToJson([feature |-> sw[1], prog |-> Program])>>)
=============================================================================
