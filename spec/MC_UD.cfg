SPECIFICATION Spec
CONSTANTS MaxLen = 5
INVARIANTS UDOwnerInv NoStrayInv AcceptedInv IgnoredStutterInv Export
CHECK_DEADLOCK FALSE
