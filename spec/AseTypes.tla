------------------------------ MODULE AseTypes ------------------------------
(* Vocabulary shared by all asefile specification modules.                    *)
EXTENDS Integers, Sequences, FiniteSets, TLC, AseArith

Byte == 0..255

\* TDiv (C-style truncating division) comes from AseArith
CeilDiv(a, b) == (a + b - 1) \div b
Min2(a, b) == IF a < b THEN a ELSE b
Max2(a, b) == IF a > b THEN a ELSE b
Abs(a) == IF a < 0 THEN -a ELSE a
\* saturating product of naturals (TLC integers are 32-bit and raise an error on overflow; file-controlled
\* dimensions and counts can multiply beyond that)
MaxInt == 2147483647
SatMul(a, b) == IF a = 0 \/ b = 0 THEN 0 ELSE IF a > MaxInt \div b THEN MaxInt ELSE a * b

\* options are encoded as <<>> (none) or <<v>> (some): TLC's JSON reader rejects null
None == <<>>
Some(v) == <<v>>
IsSome(o) == Len(o) = 1
IsNone(o) == Len(o) = 0

\* on-disk codes
ChunkCode == [oldpal04 |-> 4, oldpal11 |-> 17, layer |-> 8196, cel |-> 8197, celextra |-> 8198,
              profile |-> 8199, extfiles |-> 8200, mask |-> 8214, path |-> 8215, tags |-> 8216,
              pal |-> 8217, ud |-> 8224, slice |-> 8226, tileset |-> 8227]
KnownKinds == DOMAIN ChunkCode
IgnorableKinds == {"celextra", "mask", "path"}
BlendModes == 0..18
LayerTypes == 0..2
CelTypes == 0..3
AnimDirs == 0..2
\* defined layer flag bits (everything else is truncated by the decoder)
LayerFlagMask == 127
FlagVisible == 1
FlagBackground == 8

HasBit(x, b) == (x \div b) % 2 = 1

Fmt(depth) == CASE depth = 32 -> "rgba" [] depth = 16 -> "gray" [] depth = 8 -> "indexed" [] OTHER -> "bad"
Bpp(depth) == CASE depth = 32 -> 4 [] depth = 16 -> 2 [] OTHER -> 1

\* pixel equality: fully transparent pixels compare equal regardless of RGB
PixEq(p, q) == p = q \/ (p[4] = 0 /\ q[4] = 0)
Canon(p) == IF p[4] = 0 THEN <<0, 0, 0, 0>> ELSE p
Transparent == <<0, 0, 0, 0>>

\* sequence helpers
SeqSum(s) == LET RECURSIVE go(_, _) go(i, acc) == IF i > Len(s) THEN acc ELSE go(i + 1, acc + s[i]) IN go(1, 0)
=============================================================================
