SPECIFICATION Spec
INVARIANTS RefusalInv Export
CHECK_DEADLOCK FALSE
