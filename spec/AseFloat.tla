------------------------------ MODULE AseFloat ------------------------------
(* The IEEE binary64 kernel of Aseprite's soft-light and HSL blend modes.     *)
(* TLA+ has no floating point, so the two operators below are supplied by the *)
(* TLC module override AseFloat.java (DESIGN.md section 8). The TLA+ bodies   *)
(* are deliberately unusable: TLC fails loudly if the override is not loaded. *)
EXTENDS Integers
SoftLightChan(b, s) == CHOOSE r \in {} : TRUE
HslSource(m, B, S) == CHOOSE r \in {} : TRUE
=============================================================================
