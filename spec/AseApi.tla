--------------------------------- MODULE AseApi ---------------------------------
(* C16: the loaded sprite as an immutable value shared by threads.               *)
(* Threads execute finite lists of accessor calls on one shared reference. An    *)
(* accessor is a function of (sprite, call): Eval. The machine never changes     *)
(* `sprite`; a call's result is Eval at the moment it returns (End), whatever    *)
(* other calls are in flight. Calls and results are abstract here; Trace_Api     *)
(* binds them to digests recorded from the implementation.                       *)
EXTENDS Integers, Sequences, FiniteSets

CONSTANTS Threads, Calls, Sprite, Eval(_, _)
VARIABLES sprite, todo, inflight, log
vars == <<sprite, todo, inflight, log>>

Lists == UNION {[1..n -> Calls] : n \in 0..2}
Init == /\ sprite = Sprite
        /\ todo \in [Threads -> Lists]
        /\ inflight = [t \in Threads |-> <<>>]
        /\ log = <<>>
Begin(t) == /\ inflight[t] = <<>> /\ todo[t] # <<>>
            /\ inflight' = [inflight EXCEPT ![t] = <<Head(todo[t])>>]
            /\ todo' = [todo EXCEPT ![t] = Tail(@)]
            /\ UNCHANGED <<sprite, log>>
End(t) == /\ inflight[t] # <<>>
          /\ log' = Append(log, [thread |-> t, call |-> inflight[t][1], result |-> Eval(sprite, inflight[t][1])])
          /\ inflight' = [inflight EXCEPT ![t] = <<>>]
          /\ UNCHANGED <<sprite, todo>>
Next == \E t \in Threads : Begin(t) \/ End(t)
Spec == Init /\ [][Next]_vars

Immutable == sprite = Sprite
\* every result is a function of the call alone: any interleaving, repetition or permutation
Functional == \A i, j \in DOMAIN log : log[i].call = log[j].call => log[i].result = log[j].result
Deterministic == \A i \in DOMAIN log : log[i].result = Eval(Sprite, log[i].call)
=============================================================================
