--------------------------------- MODULE AseApi ---------------------------------
(* C16: loaded sprites as immutable values shared by threads.                    *)
(* Threads execute finite lists of calls: <<"load", f>> parses file f into the   *)
(* store (loading is a function of the bytes: Parse), <<"get", f, c>> runs       *)
(* accessor c on the sprite loaded from f. An accessor is a function of          *)
(* (sprite, call): Eval. No call changes a sprite that is already in the store - *)
(* neither another accessor nor the loading of ANOTHER file; a call's result is  *)
(* Eval at the moment it returns (End), whatever other calls are in flight.      *)
(* Calls and results are abstract here; Trace_Api binds accessor calls to        *)
(* digests recorded from real threads, Trace_Load (`twice` events) binds "an     *)
(* earlier sprite is unchanged after another load".                              *)
EXTENDS Integers, Sequences, FiniteSets

CONSTANTS Threads, Files, Accessors, Parse(_), Eval(_, _), MaxLen
VARIABLES store, todo, inflight, log
vars == <<store, todo, inflight, log>>

NotLoaded == [loaded |-> FALSE]
Calls == {<<"load", f>> : f \in Files} \cup {<<"get", f, c>> : f \in Files, c \in Accessors}
Lists == UNION {[1..n -> Calls] : n \in 0..MaxLen}
Init == /\ store = [f \in Files |-> NotLoaded]
        /\ todo \in [Threads -> Lists]
        /\ inflight = [t \in Threads |-> <<>>]
        /\ log = <<>>
\* an accessor call can only begin on a sprite that exists
Begin(t) == /\ inflight[t] = <<>> /\ todo[t] # <<>>
            /\ LET c == Head(todo[t]) IN c[1] = "get" => store[c[2]] # NotLoaded
            /\ inflight' = [inflight EXCEPT ![t] = <<Head(todo[t])>>]
            /\ todo' = [todo EXCEPT ![t] = Tail(@)]
            /\ UNCHANGED <<store, log>>
End(t) == /\ inflight[t] # <<>>
          /\ LET c == inflight[t][1] IN
               IF c[1] = "load"
               THEN /\ store' = [store EXCEPT ![c[2]] = Parse(c[2])]
                    /\ log' = Append(log, [thread |-> t, call |-> c, result |-> "loaded"])
               ELSE /\ log' = Append(log, [thread |-> t, call |-> c, result |-> Eval(store[c[2]], c[3])])
                    /\ UNCHANGED store
          /\ inflight' = [inflight EXCEPT ![t] = <<>>]
          /\ UNCHANGED todo
\* a thread whose next accessor call waits for a sprite nobody will load is simply stuck (deadlock checking is off)
Next == \E t \in Threads : Begin(t) \/ End(t)
Spec == Init /\ [][Next]_vars

\* a sprite in the store is the value of its file, whatever else has been loaded or called since
Immutable == \A f \in Files : store[f] \in {NotLoaded, Parse(f)}
\* every accessor result is a function of (file, accessor) alone: any interleaving, repetition, permutation, other loads
Functional == \A i, j \in DOMAIN log : log[i].call = log[j].call => log[i].result = log[j].result
Deterministic == \A i \in DOMAIN log : log[i].call[1] = "get" => log[i].result = Eval(Parse(log[i].call[2]), log[i].call[3])
=============================================================================
