-------------------------------- MODULE AseBytes --------------------------------
(* The on-disk byte layout of the Aseprite format as a TLA+ function: Encode(program) *)
(* is the byte sequence of a chunk program (vocabulary of AseLoad / DESIGN Appendix C) *)
(* with zlib data written as *stored* deflate blocks. It turns the file-format        *)
(* document into part of the specification and is used                                *)
(*   - to cross-check the harness encoder byte for byte (Trace_Bytes), removing it     *)
(*     from the trusted base for the chunk kinds and value ranges exercised;          *)
(*   - to compute, from the bytes alone, where the last frame ends (EndOfFrames):      *)
(*     the number of bytes a loader needs (C13, C14).                                 *)
(* 32-bit values that the vocabulary carries as decimal strings are mapped through    *)
(* NumOf, a finite table (TLC has no string-to-number conversion): Encode is defined  *)
(* for programs whose carried values are in the table.                                *)
EXTENDS AseTypes, SequencesExt

LE16(v) == <<v % 256, (v \div 256) % 256>>
LE32(v) == <<v % 256, (v \div 256) % 256, (v \div 65536) % 256, (v \div 16777216) % 256>>       \* 0 <= v < 2^31
S16(v) == LE16(IF v < 0 THEN v + 65536 ELSE v)
S32(v) == IF v >= 0 THEN LE32(v) ELSE LET u == v + 2147483647 + 1 IN <<u % 256, (u \div 256) % 256, (u \div 65536) % 256, ((u \div 16777216) % 256) + 128>>
Zeros(n) == [i \in 1..n |-> 0]
Fill(n, v) == [i \in 1..n |-> v]
Str(s) == LE16(Len(s)) \o s
RECURSIVE Cat(_)
Cat(ss) == IF ss = <<>> THEN <<>> ELSE Head(ss) \o Cat(Tail(ss))

\* decimal strings carried by the vocabulary (ids, slice fields, totals, colours): finite table
NumTable == [s \in {"0", "1", "2", "3", "4", "5", "7", "8", "-1", "-2", "-7"} |->
               CASE s = "0" -> 0 [] s = "1" -> 1 [] s = "2" -> 2 [] s = "3" -> 3 [] s = "4" -> 4 [] s = "5" -> 5
                 [] s = "7" -> 7 [] s = "8" -> 8 [] s = "-1" -> -1 [] s = "-2" -> -2 [] s = "-7" -> -7]
NumOf(s) == NumTable[s]
Encodable(s) == s \in DOMAIN NumTable

\* ---- zlib, stored blocks ----
RECURSIVE AdlerGo(_, _, _, _)
AdlerGo(data, i, a, b) == IF i > Len(data) THEN <<a, b>>
                          ELSE LET a2 == (a + data[i]) % 65521 IN AdlerGo(data, i + 1, a2, (b + a2) % 65521)
Adler32BE(data) == LET ab == AdlerGo(data, 1, 1, 0) IN <<ab[2] \div 256, ab[2] % 256, ab[1] \div 256, ab[1] % 256>>
\* one final stored block (data shorter than 65536 bytes)
ZlibStored(data) == <<120, 1, 1>> \o LE16(Len(data)) \o LE16(65535 - Len(data)) \o data \o Adler32BE(data)

\* ---- chunk bodies ----
LayerBody(c) == LE16(c.flags) \o LE16(c.ltype) \o LE16(c.level) \o LE16(c.dw) \o LE16(c.dh) \o LE16(c.blend) \o <<c.opacity>>
                \o Fill(3, c.rsv) \o Str(c.name)
                \o (IF c.ltype = 2 THEN S32(IF Len(c.tileset) = 0 THEN 0 ELSE NumOf(c.tileset[1])) ELSE <<>>)
CelBody(c) ==
  LE16(c.layer) \o S16(c.x) \o S16(c.y) \o <<c.opacity>> \o LE16(c.ctype) \o Fill(7, c.rsv)
  \o (CASE c.ctype = 0 -> LE16(c.w) \o LE16(c.h) \o Cat(c.px)
        [] c.ctype = 1 -> LE16(c.link)
        [] c.ctype = 3 -> LE16(c.w) \o LE16(c.h) \o LE16(c.bits) \o LE32(c.masks[1]) \o LE32(c.masks[2]) \o LE32(c.masks[3]) \o LE32(c.masks[4])
                          \o Fill(10, c.rsv) \o ZlibStored(Cat([i \in DOMAIN c.tiles |-> LE32(c.tiles[i])]))
        [] OTHER -> LE16(c.w) \o LE16(c.h) \o ZlibStored(Cat(c.px)))
TagsBody(c) == LE16(Len(c.tags)) \o Zeros(8)
               \o Cat([i \in DOMAIN c.tags |-> LET t == c.tags[i] IN
                         LE16(t.from) \o LE16(t.to) \o <<t.dir>> \o LE16(t.repeat) \o Zeros(6) \o S32(NumOf(t.color)) \o Str(t.name)])
SliceBody(c) == LE32(Len(c.keys)) \o LE32(c.flags) \o S32(NumOf(c.rsv)) \o Str(c.name)
                \o Cat([i \in DOMAIN c.keys |-> LET k == c.keys[i] IN
                          S32(NumOf(k.frame)) \o S32(NumOf(k.x)) \o S32(NumOf(k.y)) \o S32(NumOf(k.w)) \o S32(NumOf(k.h))
                          \o (IF HasBit(c.flags, 1) THEN S32(NumOf(k.s9.cx)) \o S32(NumOf(k.s9.cy)) \o S32(NumOf(k.s9.cw)) \o S32(NumOf(k.s9.ch)) ELSE <<>>)
                          \o (IF HasBit(c.flags, 2) THEN S32(NumOf(k.pivot.x)) \o S32(NumOf(k.pivot.y)) ELSE <<>>)])
UdBody(c) == LE32((IF Len(c.text) = 1 THEN 1 ELSE 0) + (IF Len(c.color) = 1 THEN 2 ELSE 0))
             \o (IF Len(c.text) = 1 THEN Str(c.text[1]) ELSE <<>>) \o (IF Len(c.color) = 1 THEN c.color[1] ELSE <<>>)
PalBody(c) == S32(NumOf(c.total)) \o LE32(c.first) \o LE32(c.last) \o Zeros(8)
              \o Cat([i \in DOMAIN c.entries |-> LET e == c.entries[i] IN
                        LE16(e.flags) \o e.rgba \o (IF e.flags % 2 = 1 THEN Str(e.name) ELSE <<>>)])
OldPalBody(c) == LE16(Len(c.packets))
                 \o Cat([i \in DOMAIN c.packets |-> <<c.packets[i].skip, c.packets[i].count>> \o Cat(c.packets[i].rgb)])
ProfileBody(c) == LE16(c.ptype) \o LE16(c.flags) \o S32(NumOf(c.gamma)) \o Zeros(8)
                  \o (IF c.ptype = 2 THEN LE32(Len(c.icc)) \o c.icc ELSE <<>>)
ExtFilesBody(c) == LE32(Len(c.entries)) \o Zeros(8)
                   \o Cat([i \in DOMAIN c.entries |-> S32(NumOf(c.entries[i].id)) \o <<c.entries[i].etype>> \o Zeros(7) \o Str(c.entries[i].name)])
TilesetBody(c) ==
  LET z == ZlibStored(Cat(c.px)) IN
  S32(NumOf(c.id)) \o LE32(c.flags) \o LE32(c.count) \o LE16(c.tw) \o LE16(c.th) \o S16(c.base) \o Zeros(14) \o Str(c.name)
  \o (IF HasBit(c.flags, 1) THEN S32(NumOf(c.ext.file)) \o S32(NumOf(c.ext.ts)) ELSE <<>>)
  \o (IF HasBit(c.flags, 2) THEN LE32(Len(z)) \o z ELSE <<>>)

ChunkBody(c) ==
  CASE c.k = "layer" -> LayerBody(c) [] c.k = "cel" -> CelBody(c) [] c.k = "tags" -> TagsBody(c) [] c.k = "slice" -> SliceBody(c)
    [] c.k = "ud" -> UdBody(c) [] c.k = "pal" -> PalBody(c) [] c.k \in {"oldpal04", "oldpal11"} -> OldPalBody(c)
    [] c.k = "profile" -> ProfileBody(c) [] c.k = "extfiles" -> ExtFilesBody(c) [] c.k = "tileset" -> TilesetBody(c)
    [] c.k \in IgnorableKinds -> c.body
Chunk(c, pad) == LET body == ChunkBody(c) \o [i \in 1..pad |-> 160 + (i - 1)] IN LE32(Len(body) + 6) \o LE16(ChunkCode[c.k]) \o body

CountFields(f) == LET n == Len(f.chunks) IN
  CASE f.count_field = "old" -> <<n, 0>> [] f.count_field = "new" -> <<0, n>> [] f.count_field = "old_ffff" -> <<65535, n>> [] OTHER -> <<n, n>>
Frame(f) ==
  LET chunks == Cat([i \in DOMAIN f.chunks |-> Chunk(f.chunks[i], f.pads[i])])
      cf == CountFields(f)
  IN LE32(Len(chunks) + 16) \o LE16(f.magic) \o LE16(cf[1]) \o LE16(f.dur) \o LE16(f.rsv) \o LE32(cf[2]) \o chunks

HeaderTail(h) == LE16(h.magic) \o LE16(h.nframes) \o LE16(h.w) \o LE16(h.h) \o LE16(h.depth) \o S32(NumOf(h.flags)) \o LE16(h.speed)
                 \o Zeros(8) \o <<h.tidx>> \o Fill(3, h.rsv) \o LE16(h.ncolors) \o <<h.pixw, h.pixh>>
                 \o S16(h.grid[1]) \o S16(h.grid[2]) \o LE16(h.gridsz[1]) \o LE16(h.gridsz[2]) \o Fill(84, h.rsv)
Encode(p) ==
  LET body == HeaderTail(p.hdr) \o Cat([i \in DOMAIN p.frames |-> Frame(p.frames[i])]) \o p.trailing
      total == IF NumOf(p.hdr.fsize) # 0 THEN NumOf(p.hdr.fsize) ELSE Len(body) + 4
  IN LE32(total) \o body

-----------------------------------------------------------------------------
\* From the bytes alone: where the last frame ends = how many bytes a loader needs.
U16At(b, off) == b[off + 1] + 256 * b[off + 2]
U32At(b, off) == b[off + 1] + 256 * b[off + 2] + 65536 * b[off + 3] + 16777216 * b[off + 4]
RECURSIVE FramesEnd(_, _, _)
FramesEnd(b, pos, n) == IF n = 0 THEN pos ELSE FramesEnd(b, pos + U32At(b, pos), n - 1)
EndOfFrames(b) == FramesEnd(b, 128, U16At(b, 6))
=============================================================================
