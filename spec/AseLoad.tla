------------------------------- MODULE AseLoad -------------------------------
(* The asefile loader as a chunk-level state machine.                          *)
(*                                                                             *)
(* The abstract parser state `ps` is shaped like ParseInfo in src/parse.rs.    *)
(* There is one operator per dispatch arm of parse_frame (Do<Kind>), plus      *)
(* header, frame header and the validation stage. The environment (the file    *)
(* writer) supplies chunk records in the vocabulary of DESIGN.md Appendix C.   *)
(* Specs that EXTEND this module turn the operators into actions:              *)
(*   MC_*.tla    : the environment chooses chunks nondeterministically          *)
(*   Trace_*.tla : the chunks are the events recorded from the implementation  *)
(*                                                                             *)
(* Outcome classes. A fault that one of the properties requires to be refused  *)
(* (C11, C15) is recorded in `must`; any other malformation in `soft`.         *)
(*   Outcome = "err"    if must # {}       (loading must return an error)      *)
(*           = "either" if only soft faults (error or a fully usable sprite)   *)
(*           = "ok"     otherwise          (must load, observation determined) *)
EXTENDS AseTypes, SequencesExt, FiniteSetsExt

-----------------------------------------------------------------------------
\* bitwise and on naturals < 2^31
RECURSIVE BitAnd(_, _)
BitAnd(a, b) == IF a = 0 \/ b = 0 THEN 0
                ELSE 2 * BitAnd(a \div 2, b \div 2) + (IF a % 2 = 1 /\ b % 2 = 1 THEN 1 ELSE 0)

-----------------------------------------------------------------------------
\* STRING fields are UTF-8 (RFC 3629: no overlong forms, no surrogates, at most U+10FFFF); a name that is not
\* valid UTF-8 is out of contract (the decoder reports an error value).
RECURSIVE Utf8From(_, _)
Utf8From(b, i) ==
  IF i > Len(b) THEN TRUE
  ELSE LET c == b[i]
           cont(k) == i + k <= Len(b) /\ \A j \in 1..k : b[i + j] \in 128..191
       IN CASE c <= 127 -> Utf8From(b, i + 1)
            [] c \in 194..223 -> cont(1) /\ Utf8From(b, i + 2)
            [] c = 224 -> cont(2) /\ b[i + 1] >= 160 /\ Utf8From(b, i + 3)
            [] c \in 225..236 \cup {238, 239} -> cont(2) /\ Utf8From(b, i + 3)
            [] c = 237 -> cont(2) /\ b[i + 1] <= 159 /\ Utf8From(b, i + 3)
            [] c = 240 -> cont(3) /\ b[i + 1] >= 144 /\ Utf8From(b, i + 4)
            [] c \in 241..243 -> cont(3) /\ Utf8From(b, i + 4)
            [] c = 244 -> cont(3) /\ b[i + 1] <= 143 /\ Utf8From(b, i + 4)
            [] OTHER -> FALSE
ValidUtf8(b) == Utf8From(b, 1)

-----------------------------------------------------------------------------
\* Initial parser state, after the 128-byte header has been decoded.
InitPS(h) ==
  LET nf == h.nframes IN
  [ hdr       |-> [nframes |-> nf, w |-> h.w, h |-> h.h, depth |-> h.depth, tidx |-> h.tidx,
                   pixw |-> h.pixw, pixh |-> h.pixh],
    frame     |-> -1,
    durations |-> [i \in 1..nf |-> h.speed],
    layers    |-> <<>>,
    cels      |-> <<>>,
    tags      |-> None,
    slices    |-> <<>>,
    pal       |-> [origin |-> "none", m |-> <<>>],
    tilesets  |-> <<>>,
    extfiles  |-> <<>>,
    spriteUD  |-> None,
    ctx       |-> <<>>,
    st        |-> "run",
    must      |-> (IF h.depth \notin {8, 16, 32} THEN {"depth"} ELSE {})
                  \cup (IF h.pixw # 0 /\ h.pixh # 0 /\ ~(h.pixw = 1 /\ h.pixh = 1) THEN {"pixel_ratio"} ELSE {}),
    soft      |-> (IF h.magic # 42464 THEN {"magic"} ELSE {}) ]

Stopped(ps) == ps.st = "stop" \/ ps.must # {} \/ ps.soft # {}
Must(ps, why) == [ps EXCEPT !.must = @ \cup {why}, !.st = "stop"]
Soft(ps, why) == [ps EXCEPT !.soft = @ \cup {why}, !.st = "stop"]

\* Frame header: duration recorded, chunk count selected by the *environment*
\* (old field, new field or both: the count is the length of the frame's chunk list).
BeginFrame(ps, f, dur, magic) ==
  IF Stopped(ps) THEN ps
  ELSE IF f >= ps.hdr.nframes THEN ps              \* data after the last frame is never read
  ELSE IF magic # 61946 THEN Soft(ps, "frame_magic")
  ELSE [ps EXCEPT !.frame = f, !.durations[f + 1] = dur]

-----------------------------------------------------------------------------
\* Cel table (src/cel.rs CelsData): partial map (frame, layer) -> cel
CelIdx(cels, f, l) ==
  LET S == {i \in DOMAIN cels : cels[i].f = f /\ cels[i].l = l}
  IN IF S = {} THEN 0 ELSE CHOOSE i \in S : TRUE
HasCel(ps, f, l) == CelIdx(ps.cels, f, l) # 0
CelAt(ps, f, l) == ps.cels[CelIdx(ps.cels, f, l)]

BppOf(ps) == Bpp(ps.hdr.depth)
PixelsWellSized(ps, px) == \A i \in DOMAIN px : Len(px[i]) = BppOf(ps)

DoLayer(ps, c) ==
  IF ~ValidUtf8(c.name) THEN Soft(ps, "invalid_utf8")
  ELSE IF c.ltype \notin LayerTypes THEN Must(ps, "layer_type")
  ELSE IF c.blend \notin BlendModes THEN Must(ps, "blend_mode")
  ELSE [ps EXCEPT
         !.layers = Append(@, [flags |-> c.flags % (LayerFlagMask + 1), ltype |-> c.ltype, level |-> c.level,
                               blend |-> c.blend, opacity |-> c.opacity, name |-> c.name,
                               tileset |-> IF c.ltype = 2
                                           THEN (IF Len(c.tileset) = 0 THEN Some("0") ELSE Some(c.tileset[1]))
                                           ELSE None,
                               ud |-> None]),
         !.ctx = <<"layer", Len(ps.layers)>>]

DoCel(ps, c) ==
  LET f == ps.frame
      base == [f |-> f, l |-> c.layer, x |-> c.x, y |-> c.y, opacity |-> c.opacity, ud |-> None,
               w |-> c.w, h |-> c.h, px |-> <<>>, link |-> 0, tiles |-> <<>>, kind |-> "raw", zlib |-> FALSE]
      add(cel) == IF HasCel(ps, f, c.layer) THEN Soft(ps, "duplicate_cel")
                  ELSE [ps EXCEPT !.cels = Append(@, cel), !.ctx = <<"cel", f, c.layer>>]
  IN
  CASE c.ctype = 0 ->
         IF ~PixelsWellSized(ps, c.px) THEN Soft(ps, "pixel_bytes")
         ELSE IF Len(c.px) < SatMul(c.w, c.h) THEN Soft(ps, "raw_cel_short")
         ELSE add([base EXCEPT !.px = SubSeq(c.px, 1, c.w * c.h)])      \* extra bytes are never read
    [] c.ctype = 1 -> add([base EXCEPT !.kind = "linked", !.link = c.link, !.w = 0, !.h = 0])
    [] c.ctype = 2 ->
         IF ~PixelsWellSized(ps, c.px) THEN Soft(ps, "pixel_bytes")
         ELSE add([base EXCEPT !.px = c.px, !.zlib = TRUE])
    [] c.ctype = 3 ->
         IF c.bits # 32 THEN Must(ps, "bits_per_tile")
         ELSE add([base EXCEPT !.kind = "tilemap",
                               !.tiles = [i \in DOMAIN c.tiles |-> BitAnd(c.tiles[i], c.masks[1])]])
    [] OTHER -> Must(ps, "cel_type")

TagOf(t) == [from |-> t.from, to |-> t.to, dir |-> t.dir, repeat |-> t.repeat, name |-> t.name, ud |-> None]
DoTags(ps, c) ==
  IF \E i \in DOMAIN c.tags : ~ValidUtf8(c.tags[i].name) THEN Soft(ps, "invalid_utf8")
  ELSE IF \E i \in DOMAIN c.tags : c.tags[i].dir \notin AnimDirs THEN Must(ps, "anim_direction")
  ELSE IF ps.frame # 0 THEN ps                       \* named deviation: tags outside frame 0 are ignored
  ELSE [ps EXCEPT !.tags = Some([i \in DOMAIN c.tags |-> TagOf(c.tags[i])]), !.ctx = <<"tag", 0>>]

KeyOf(k, flags) ==
  [frame |-> k.frame, x |-> k.x, y |-> k.y, w |-> k.w, h |-> k.h,
   s9 |-> IF HasBit(flags, 1) THEN Some(k.s9) ELSE None,
   pivot |-> IF HasBit(flags, 2) THEN Some(k.pivot) ELSE None]
DoSlice(ps, c) ==
  IF ~ValidUtf8(c.name) THEN Soft(ps, "invalid_utf8") ELSE
  [ps EXCEPT !.slices = Append(@, [name |-> c.name, keys |-> [i \in DOMAIN c.keys |-> KeyOf(c.keys[i], c.flags)], ud |-> None]),
             !.ctx = <<"slice", Len(ps.slices)>>]

\* a user data record as the API reports it: text / colour only when their flag is set
UDOf(c) == [text |-> c.text, color |-> c.color]
DoUserData(ps, c) ==
  LET u == Some(UDOf(c)) IN
  CASE Len(c.text) = 1 /\ ~ValidUtf8(c.text[1]) -> Soft(ps, "invalid_utf8")
    [] ps.ctx = <<>> -> Soft(ps, "dangling_user_data")
    [] ps.ctx[1] = "layer" -> [ps EXCEPT !.layers[ps.ctx[2] + 1].ud = u]
    [] ps.ctx[1] = "cel" -> LET i == CelIdx(ps.cels, ps.ctx[2], ps.ctx[3]) IN [ps EXCEPT !.cels[i].ud = u]
    [] ps.ctx[1] = "slice" -> [ps EXCEPT !.slices[ps.ctx[2] + 1].ud = u]
    [] ps.ctx[1] = "sprite" -> [ps EXCEPT !.spriteUD = u]
    [] ps.ctx[1] = "tag" ->
         IF IsNone(ps.tags) \/ ps.ctx[2] >= Len(ps.tags[1]) THEN Soft(ps, "user_data_beyond_tags")
         ELSE [ps EXCEPT !.tags[1][ps.ctx[2] + 1].ud = u, !.ctx = <<"tag", ps.ctx[2] + 1>>]

\* new-format palette: replaces whatever palette was there
DoPalette(ps, c) ==
  LET n == c.last - c.first + 1 IN
  IF c.last < c.first THEN Soft(ps, "palette_range")
  ELSE IF Len(c.entries) < n THEN Soft(ps, "palette_short")
  ELSE IF \E i \in 1..n : c.entries[i].flags % 2 = 1 /\ ~ValidUtf8(c.entries[i].name) THEN Soft(ps, "invalid_utf8")
  ELSE [ps EXCEPT !.pal = [origin |-> "new",
          m |-> [i \in c.first..c.last |->
                   LET e == c.entries[i - c.first + 1] IN
                   [rgba |-> e.rgba, name |-> IF e.flags % 2 = 1 THEN Some(e.name) ELSE None]]]]

\* legacy palettes: 0x0004 (8-bit) and 0x0011 (6-bit); cumulative skip, count byte 0 = 256
Scale6(v) == v * 4 + (v \div 16)
PacketCount(p) == IF p.count = 0 THEN 256 ELSE p.count
RECURSIVE OldPackets(_, _, _, _)
\* returns [ok, m]: the palette map after packets i.., ok = FALSE on a packet with too few colours
OldPackets(packets, i, skip, acc) ==
  IF i > Len(packets) THEN [ok |-> TRUE, m |-> acc]
  ELSE LET p == packets[i]
           s == skip + p.skip
           n == PacketCount(p)
       IN IF Len(p.rgb) < n THEN [ok |-> FALSE, m |-> acc]
          ELSE OldPackets(packets, i + 1, s,
                 [k \in (DOMAIN acc) \cup (s..(s + n - 1)) |->
                    IF k \in s..(s + n - 1) THEN p.rgb[k - s + 1] ELSE acc[k]])
DoOldPalette(ps, c, sixbit) ==
  LET ps1 == [ps EXCEPT !.ctx = <<"sprite">>] IN      \* the context moves even if the chunk is not used
  IF ps.pal.origin # "none" THEN ps1
  ELSE LET res == OldPackets(c.packets, 1, 0, <<>>)
           raw == res.m IN
       IF ~res.ok THEN Soft(ps1, "old_palette_short")
       \* every component that is read is range-checked, also in entries a later packet overwrites
       ELSE IF sixbit /\ \E p \in DOMAIN c.packets : \E i \in 1..PacketCount(c.packets[p]) : \E j \in 1..3 : c.packets[p].rgb[i][j] > 63
            THEN Soft(ps1, "six_bit_range")
       ELSE [ps1 EXCEPT !.pal = [origin |-> "old",
               m |-> [k \in DOMAIN raw |->
                        [rgba |-> IF sixbit THEN <<Scale6(raw[k][1]), Scale6(raw[k][2]), Scale6(raw[k][3]), 255>>
                                  ELSE <<raw[k][1], raw[k][2], raw[k][3], 255>>,
                         name |-> None]]]]

DoProfile(ps, c) ==
  IF c.ptype > 2 THEN Soft(ps, "profile_type")
  ELSE IF c.flags % 2 = 1 THEN Must(ps, "fixed_gamma")
  ELSE IF c.ptype = 2 THEN Must(ps, "icc_profile")
  ELSE ps                                              \* sRGB / none: no observable state

ReplaceById(seq, e) == SelectSeq(seq, LAMBDA x : x.id # e.id) \o <<e>>
RECURSIVE AddAll(_, _, _)
AddAll(seq, es, i) == IF i > Len(es) THEN seq ELSE AddAll(ReplaceById(seq, es[i]), es, i + 1)
DoExtFiles(ps, c) ==
  IF \E i \in DOMAIN c.entries : ~ValidUtf8(c.entries[i].name) THEN Soft(ps, "invalid_utf8") ELSE
  [ps EXCEPT !.extfiles = AddAll(@, [i \in DOMAIN c.entries |-> [id |-> c.entries[i].id, name |-> c.entries[i].name]], 1)]

DoTileset(ps, c) ==
  IF ~ValidUtf8(c.name) THEN Soft(ps, "invalid_utf8")
  ELSE IF HasBit(c.flags, 2) /\ ~PixelsWellSized(ps, c.px) THEN Soft(ps, "pixel_bytes")
  ELSE [ps EXCEPT !.tilesets = ReplaceById(@,
          [id |-> c.id, count |-> c.count, tw |-> c.tw, th |-> c.th, base |-> c.base, name |-> c.name,
           empty0 |-> HasBit(c.flags, 4),
           ext |-> IF HasBit(c.flags, 1) THEN Some(c.ext) ELSE None,
           haspx |-> HasBit(c.flags, 2), px |-> IF HasBit(c.flags, 2) THEN c.px ELSE <<>>])]

\* cel-extra, mask, path: stuttering on every variable
DoIgnored(ps, c) == ps

\* One chunk applied to the parser state: the dispatch of parse_frame.
ApplyChunk(ps, c) ==
  IF Stopped(ps) \/ ps.frame < 0 THEN ps
  ELSE CASE c.k = "layer" -> DoLayer(ps, c)
         [] c.k = "cel" -> DoCel(ps, c)
         [] c.k = "tags" -> DoTags(ps, c)
         [] c.k = "slice" -> DoSlice(ps, c)
         [] c.k = "ud" -> DoUserData(ps, c)
         [] c.k = "pal" -> DoPalette(ps, c)
         [] c.k = "oldpal04" -> DoOldPalette(ps, c, FALSE)
         [] c.k = "oldpal11" -> DoOldPalette(ps, c, TRUE)
         [] c.k = "profile" -> DoProfile(ps, c)
         [] c.k = "extfiles" -> DoExtFiles(ps, c)
         [] c.k = "tileset" -> DoTileset(ps, c)
         [] c.k \in IgnorableKinds -> DoIgnored(ps, c)
         [] OTHER -> Soft(ps, "unknown_chunk")

-----------------------------------------------------------------------------
\* Layer forest (src/layer.rs compute_parents, Layer::is_visible)
NL(ps) == Len(ps.layers)
Level(ps, i) == ps.layers[i + 1].level
\* declarative: the nearest preceding layer with a smaller nesting level - stated on a bare sequence of nesting levels
\* (layer ids are 0-based, sequences 1-based), so that it also applies where only the levels of a sprite are known
ParentSetL(lv, i) == {j \in 0..(i - 1) : lv[j + 1] < lv[i + 1]}
\* (FoldSet rather than FiniteSetsExt!Max: that one is quadratic in TLC, and a sprite can have 2^16 layers and more)
MaxOf(S) == FoldSet(LAMBDA x, acc : IF x > acc THEN x ELSE acc, -1, S)
ParentL(lv, i) == IF lv[i + 1] = 0 THEN None ELSE LET S == ParentSetL(lv, i) IN IF S = {} THEN None ELSE Some(MaxOf(S))
RECURSIVE AncestorsL(_, _)
AncestorsL(lv, i) == LET p == ParentL(lv, i) IN IF IsNone(p) THEN {} ELSE {p[1]} \cup AncestorsL(lv, p[1])
\* own visible flag and the flags of all ancestors
VisibleL(lv, vis, i) == \A j \in {i} \cup AncestorsL(lv, i) : vis[j + 1]
Levels(ps) == [i \in 1..NL(ps) |-> ps.layers[i].level]
ParentSet(ps, i) == ParentSetL(Levels(ps), i)
Parent(ps, i) == ParentL(Levels(ps), i)
\* code-shaped: recursive walk through the parents
RECURSIVE VisibleRec(_, _)
VisibleRec(ps, i) ==
  HasBit(ps.layers[i + 1].flags, FlagVisible)
  /\ (IF IsNone(Parent(ps, i)) THEN TRUE ELSE VisibleRec(ps, Parent(ps, i)[1]))
\* declarative: own flag and the flags of all ancestors
RECURSIVE Ancestors(_, _)
Ancestors(ps, i) == IF IsNone(Parent(ps, i)) THEN {} ELSE {Parent(ps, i)[1]} \cup Ancestors(ps, Parent(ps, i)[1])
VisibleDecl(ps, i) == \A j \in {i} \cup Ancestors(ps, i) : HasBit(ps.layers[j + 1].flags, FlagVisible)
Visible(ps, i) == VisibleRec(ps, i)
\* the same two notions for all layers at once, in one pass each (a stack of open ancestors, as compute_parents could do it;
\* visibility of a layer from the already computed visibility of its parent). Trace validation uses these on sprites
\* with hundreds of layers; MC_Forest checks on every forest within its bounds that they equal Parent / VisibleDecl.
ParentVec(ps) ==
  LET n == NL(ps)
      \* acc = [par |-> parents so far, open |-> stack of layer ids whose level strictly increases from bottom to top]
      StepP(acc, i) ==
        LET lv == Level(ps, i)
            keep == SelectSeq(acc.open, LAMBDA j : Level(ps, j) < lv)
        IN [par |-> Append(acc.par, IF lv = 0 \/ keep = <<>> THEN None ELSE Some(keep[Len(keep)])), open |-> Append(keep, i)]
  IN FoldLeft(StepP, [par |-> <<>>, open |-> <<>>], [i \in 1..n |-> i - 1]).par
VisibleVec(ps) ==
  LET par == ParentVec(ps)
      StepV(acc, i) == Append(acc, HasBit(ps.layers[i + 1].flags, FlagVisible) /\ (IsNone(par[i + 1]) \/ acc[par[i + 1][1] + 1]))
  IN FoldLeft(StepV, <<>>, [i \in 1..NL(ps) |-> i - 1])
\* the layer sequences the properties quantify over
ProperForest(ps) ==
  NL(ps) = 0 \/ (Level(ps, 0) = 0 /\ \A i \in 1..(NL(ps) - 1) : Level(ps, i) <= Level(ps, i - 1) + 1)

IsBackground(ps, l) == HasBit(ps.layers[l + 1].flags, FlagBackground)

-----------------------------------------------------------------------------
\* Validation stage (ParseInfo::validate) as the predicate the renderer needs.
TilesetIdx(ps, id) ==
  LET S == {i \in DOMAIN ps.tilesets : ps.tilesets[i].id = id} IN IF S = {} THEN 0 ELSE CHOOSE i \in S : TRUE
IndexedSprite(ps) == ps.hdr.depth = 8
PalHas(ps, i) == ps.pal.origin # "none" /\ i \in DOMAIN ps.pal.m
PixelsInPalette(ps, px) == \A i \in DOMAIN px : PalHas(ps, px[i][1])

MustFaults(ps) ==
  (IF \E i \in DOMAIN ps.tilesets : ~ps.tilesets[i].haspx THEN {"tileset_not_embedded"} ELSE {})
  \cup (IF IndexedSprite(ps)
           /\ ( (\E i \in DOMAIN ps.tilesets : ~PixelsInPalette(ps, ps.tilesets[i].px))
                \/ (\E i \in DOMAIN ps.cels : ps.cels[i].kind = "raw" /\ ps.cels[i].l < NL(ps)
                                               /\ ~PixelsInPalette(ps, ps.cels[i].px)) )
        THEN {"palette_incomplete"} ELSE {})

CelFaults(ps, c) ==
  IF c.l >= NL(ps) THEN {"cel_layer_out_of_range"}
  ELSE LET ly == ps.layers[c.l + 1] IN
    (IF ly.ltype = 1 THEN {"cel_on_group_layer"} ELSE {})
    \cup
    (CASE c.kind = "raw" ->
            (IF Len(c.px) # SatMul(c.w, c.h) THEN {"cel_size_mismatch"} ELSE {})
            \cup (IF c.w = 0 \/ c.h = 0 THEN {"empty_cel_rectangle"} ELSE {})
            \cup (IF ly.ltype = 2 THEN {"image_cel_on_tilemap_layer"} ELSE {})
       [] c.kind = "linked" ->
            IF c.link >= ps.hdr.nframes \/ ~HasCel(ps, c.link, c.l) THEN {"link_target_missing"}
            ELSE IF CelAt(ps, c.link, c.l).kind # "raw" THEN {"link_target_not_image"} ELSE {}
       [] c.kind = "tilemap" ->
            IF ly.ltype # 2 THEN {"tilemap_cel_outside_tilemap_layer"}
            ELSE LET ti == TilesetIdx(ps, ly.tileset[1]) IN
                 IF ti = 0 THEN {}   \* reported once as missing_tileset
                 ELSE (IF Len(c.tiles) # SatMul(c.w, c.h) THEN {"tilemap_size_mismatch"} ELSE {})
                      \cup (IF \E k \in DOMAIN c.tiles : c.tiles[k] >= ps.tilesets[ti].count THEN {"tile_id_out_of_range"} ELSE {}))

SoftFaults(ps) ==
  (IF ps.frame # ps.hdr.nframes - 1 THEN {"missing_frames"} ELSE {})
  \cup (IF ~ProperForest(ps) THEN {"not_a_forest"} ELSE {})
  \cup (IF \E i \in DOMAIN ps.layers : ps.layers[i].ltype = 2 /\ TilesetIdx(ps, ps.layers[i].tileset[1]) = 0
        THEN {"missing_tileset"} ELSE {})
  \cup (IF \E i \in DOMAIN ps.tilesets : ps.tilesets[i].tw = 0 \/ ps.tilesets[i].th = 0 THEN {"zero_tile_size"} ELSE {})
  \cup (IF \E i \in DOMAIN ps.tilesets : LET t == ps.tilesets[i] IN t.haspx /\ Len(t.px) # SatMul(t.count, SatMul(t.tw, t.th))
        THEN {"tileset_size_mismatch"} ELSE {})
  \cup UNION {CelFaults(ps, ps.cels[i]) : i \in DOMAIN ps.cels}

\* End of input reached with all frames read: the validation stage.
Validate(ps) ==
  IF Stopped(ps) THEN ps
  ELSE [ps EXCEPT !.must = MustFaults(ps), !.soft = SoftFaults(ps), !.st = "done"]

Outcome(ps) == IF ps.must # {} THEN "err" ELSE IF ps.soft # {} THEN "either" ELSE "ok"

-----------------------------------------------------------------------------
\* Whole-program load as a fold (used to state Expected(program) in one expression)
RECURSIVE ApplyChunks(_, _, _)
ApplyChunks(ps, chunks, i) == IF i > Len(chunks) THEN ps ELSE ApplyChunks(ApplyChunk(ps, chunks[i]), chunks, i + 1)
RECURSIVE ApplyFrames(_, _, _)
ApplyFrames(ps, frames, i) ==
  IF i > Len(frames) \/ i > ps.hdr.nframes THEN ps        \* frames beyond the declared count are never read
  ELSE ApplyFrames(ApplyChunks(BeginFrame(ps, i - 1, frames[i].dur, frames[i].magic), frames[i].chunks, 1), frames, i + 1)
Load(program) == Validate(ApplyFrames(InitPS(program.hdr), program.frames, 1))
=============================================================================
