------------------------------ MODULE Trace_Load ------------------------------
(* Trace validation (direction B, and the acceptance path of direction A):    *)
(* an NDJSON trace recorded by the harness from the real library is replayed  *)
(* through the actions of AseLoad. One event = one step.                      *)
(*   begin  : header decoded            -> InitPS                             *)
(*   frame  : frame header              -> BeginFrame  (+ hook fields)        *)
(*   chunk  : one chunk applied         -> ApplyChunk  (+ hook: ctx, counters)*)
(*   end    : the loader returned       -> Validate, outcome class            *)
(*   obs    : the public API projected  -> Failing(ps, obs) = {}              *)
(* Every rejected case prints one REJECT line; acceptance is the              *)
(* POSTCONDITION (all events consumed, no reject).                            *)
EXTENDS AseObs, AseParse, Json, IOUtils

Rec == ndJsonDeserialize(IOEnv.TRACE)

VARIABLES l, ps, res, case, base
tvars == <<l, ps, res, case, base>>
\* base: result and observation of the most recent case that is not a variant (C07)

RejectReg == 42
Verdict(ok, info) == IF ok THEN TRUE ELSE PrintT(<<"REJECT", info>>) /\ TLCSet(RejectReg, TLCGet(RejectReg) + 1)

Idle == [st |-> "idle"]
\* outcome statistics (vacuity control): registers 43..46 = ok / err / either / unknown-structure
Count(reg) == TLCSet(reg, TLCGet(reg) + 1)
NoBase == [result |-> "", obs |-> <<>>, var |-> FALSE]
TraceInit == l = 1 /\ ps = Idle /\ res = "" /\ case = "" /\ base = NoBase /\ TLCSet(RejectReg, 0)
             /\ TLCSet(43, 0) /\ TLCSet(44, 0) /\ TLCSet(45, 0) /\ TLCSet(46, 0)

IsEvent(e) == l <= Len(Rec) /\ Rec[l].ev = e /\ l' = l + 1
\* mode "bytes": the program is derived from the recorded bytes by AseParse!Decode; when the bytes do not decode
\* cleanly only the outcome class is known
Full == ps # Idle /\ ps.st # "bytesclass"

KindName(k) == CASE k = "layer" -> "Layer" [] k = "cel" -> "Cel" [] k = "tags" -> "Tags" [] k = "slice" -> "Slice"
  [] k = "ud" -> "UserData" [] k = "pal" -> "Palette" [] k = "oldpal04" -> "OldPalette04" [] k = "oldpal11" -> "OldPalette11"
  [] k = "profile" -> "ColorProfile" [] k = "extfiles" -> "ExternalFiles" [] k = "tileset" -> "Tileset"
  [] k = "celextra" -> "CelExtra" [] k = "mask" -> "Mask" [] k = "path" -> "Path" [] OTHER -> "?"

\* the implementation's state after the chunk (hook) against the specification's state
HookAgrees(p, c, h) ==
  /\ h.kind = KindName(c.k)
  /\ h.ctx = p.ctx
  /\ h.nl = Len(p.layers) /\ h.ns = Len(p.slices)
  /\ h.nt = (IF IsNone(p.tags) THEN -1 ELSE Len(p.tags[1]))
  /\ h.npal = (IF p.pal.origin = "none" THEN -1 ELSE Cardinality(DOMAIN p.pal.m))
  /\ h.nts = Len(p.tilesets) /\ h.nef = Len(p.extfiles) /\ h.sud = IsSome(p.spriteUD)

TBegin ==
  /\ IsEvent("begin")
  /\ LET e == Rec[l] IN
       /\ case' = e.case
       /\ ps' = IF e.mode = "full" /\ Len(e.hdr) = 1 THEN InitPS(e.hdr[1])
                ELSE IF e.mode = "bytes"
                THEN LET d == Decode(e.xbytes) IN
                     IF d.t = "ok" THEN ApplyFrames(InitPS(d.prog.hdr), d.prog.frames, 1)
                     ELSE [st |-> "bytesclass", out |-> OutcomeOfBytes(e.xbytes), why |-> d.why]
                ELSE Idle
       /\ res' = ""
       \* a case whose meta carries variant_of is another encoding of the preceding base case
       /\ base' = IF "variant_of" \in DOMAIN e.meta THEN [base EXCEPT !.var = TRUE] ELSE NoBase

TFrame ==
  /\ IsEvent("frame")
  /\ LET e == Rec[l] IN
       /\ ps' = BeginFrame(ps, e.f, e.dur, e.magic)
       /\ Verdict(Len(e.hook) = 1 /\ ~Stopped(ps') => e.hook[1].dur = e.dur, <<case, "frame_hook", e.f>>)
  /\ UNCHANGED <<res, case, base>>

TChunk ==
  /\ IsEvent("chunk")
  /\ LET e == Rec[l]
         p == IF e.f < ps.hdr.nframes THEN ApplyChunk(ps, e.c) ELSE ps
     IN /\ ps' = p
        /\ Verdict((Len(e.hook) = 1 /\ ~Stopped(p)) => HookAgrees(p, e.c, e.hook[1]),
                   <<case, "parser_state_after_chunk", e.f, e.i, e.c.k, "spec_ctx", p.ctx, "impl", e.hook>>)
  /\ UNCHANGED <<res, case, base>>

IsErr(r) == r \notin {"ok", "panic", "abort", "hang", "stack_overflow", "killed"}

TEnd ==
  /\ IsEvent("end")
  /\ LET e == Rec[l] IN
       /\ res' = e.result
       /\ base' = IF base.var THEN base ELSE [base EXCEPT !.result = e.result]
       \* C07: an equivalent encoding loads exactly when the base encoding does
       /\ Verdict(base.var => (e.result = "ok") = (base.result = "ok"), <<case, "variant_result_differs", e.result, e.msg, "base", base.result>>)
       /\ IF Full
          THEN LET fin == Validate(ps)
                   out == Outcome(fin)
               IN /\ ps' = fin
                  /\ Count(CASE out = "ok" -> 43 [] out = "err" -> 44 [] OTHER -> 45)
                  /\ Verdict(CASE out = "ok" -> e.result = "ok"
                               [] out = "err" -> IsErr(e.result)
                               [] OTHER -> e.result = "ok" \/ IsErr(e.result),
                             <<case, "load_result", e.result, e.msg, "spec_outcome", out, fin.must, fin.soft>>)
          ELSE /\ ps' = ps
               /\ Count(IF ps # Idle /\ ps.out = "err" THEN 44 ELSE IF ps # Idle /\ ps.out = "either" THEN 45 ELSE 46)
               /\ Verdict(IF ps # Idle /\ ps.out = "err" THEN IsErr(e.result) ELSE (e.result = "ok" \/ IsErr(e.result)),
                          <<case, "load_result", e.result, e.msg, "spec_outcome", IF ps = Idle THEN "unstructured" ELSE ps.out,
                            IF ps = Idle THEN "" ELSE ps.why, {}>>)
       /\ Verdict(e.peak_kib <= 65536 + 8 * e.len /\ e.refused_kib = 0,
                  <<case, "memory_bound", "peak_kib", e.peak_kib, "largest_request_kib", e.maxreq_kib, "refused_kib", e.refused_kib, "input_bytes", e.len>>)
  /\ UNCHANGED case

TTwice ==
  /\ IsEvent("twice")
  /\ Verdict(Rec[l].equal, <<Rec[l].case, "second_load_differs", IF "after" \in DOMAIN Rec[l] THEN Rec[l].after ELSE "">>)
  /\ UNCHANGED <<ps, res, case, base>>

TObs ==
  /\ IsEvent("obs")
  /\ LET o == Rec[l].obs IN
       IF Full /\ Outcome(ps) = "ok"
       THEN LET bad == Failing(ps, o) IN Verdict(bad = {}, <<case, "observation", bad, IF "panics" \in bad THEN o.panics ELSE <<>>>>)
       ELSE LET bad == UsableFailing(o) \cup (IF Full /\ ps.st = "done" /\ o.panics = <<>> THEN WeakFailing(ps, o) ELSE {})
            IN Verdict(bad = {}, <<case, "usable", bad, o.panics>>)
  \* C07: an equivalent encoding yields the same observation as the base encoding
  /\ Verdict(base.var => Rec[l].obs = base.obs, <<case, "variant_observation_differs",
               IF base.var /\ base.obs # <<>> THEN {f \in DOMAIN base.obs : f \in DOMAIN Rec[l].obs /\ Rec[l].obs[f] # base.obs[f]} ELSE {}>>)
  /\ base' = IF base.var THEN base ELSE [base EXCEPT !.obs = Rec[l].obs]
  /\ UNCHANGED <<ps, res, case>>

\* C16: the same case observed by two build profiles (merged pairwise by the orchestrator)
TPair ==
  /\ IsEvent("pair")
  /\ LET e == Rec[l] IN Verdict(e.a = e.b, <<e.case, "profile_pair_differs", e.what>>)
  /\ Count(46)
  /\ UNCHANGED <<ps, res, case, base>>

\* sprites with very many layers (beyond 16 bits): the levels and visible flags as encoded, and what the loaded sprite
\* reports for a sample of layers; parents and visibility are decided by the declarative forest notions on the levels
TForest ==
  /\ IsEvent("forest")
  /\ LET e == Rec[l]
         bad == {e.samples[k].i : k \in {k \in DOMAIN e.samples :
                   LET s == e.samples[k] IN
                   ~(s.id = s.i /\ s.parent = ParentL(e.levels, s.i) /\ s.visible = VisibleL(e.levels, e.vis, s.i))}}
     IN /\ Verdict(e.nl = Len(e.levels) /\ Len(e.panics) = 0, <<case, "forest_layers", e.nl, Len(e.levels), e.panics>>)
        /\ Verdict(bad = {}, <<case, "forest_sample", bad>>)
  /\ UNCHANGED <<ps, res, case, base>>

TDone == IsEvent("done") /\ ps' = Idle /\ UNCHANGED <<res, case, base>>

TraceNext == TBegin \/ TFrame \/ TChunk \/ TForest \/ TEnd \/ TTwice \/ TObs \/ TPair \/ TDone
TraceSpec == TraceInit /\ [][TraceNext]_tvars

TraceAccepted ==
  LET d == TLCGet("stats").diameter IN
  /\ IF d - 1 = Len(Rec) THEN TRUE
     ELSE Print(<<"TRACE-STUCK at event", d, IF d <= Len(Rec) THEN Rec[d].ev ELSE "?">>, FALSE)
  /\ PrintT(<<"OUTCOMES", TLCGet(43), TLCGet(44), TLCGet(45), TLCGet(46)>>)
  /\ IF TLCGet(RejectReg) = 0 THEN TRUE ELSE Print(<<"TRACE-REJECTS", TLCGet(RejectReg)>>, FALSE)
=============================================================================
