-------------------------------- MODULE AseUtil --------------------------------
(* C18: the optional utility helpers (feature `utils`).                        *)
EXTENDS Integers, Sequences, FiniteSets

Clamp(v, lo, hi) == IF v < lo THEN lo ELSE IF v > hi THEN hi ELSE v
\* extrude_border: (w+2) x (h+2), pixel (x, y) = input pixel at (clamp(x-1), clamp(y-1))
Extrude(px, w, h) ==
  [i \in 1..((w + 2) * (h + 2)) |->
     LET x == (i - 1) % (w + 2)
         y == (i - 1) \div (w + 2)
     IN px[Clamp(y - 1, 0, h - 1) * w + Clamp(x - 1, 0, w - 1) + 1]]

\* palette: first index + sequence of <<r, g, b>>; options: failure index, optional transparent index
IdsWith(first, entries, rgb) == {first + k - 1 : k \in {k \in DOMAIN entries : entries[k] = rgb}}
\* the set of indices PaletteMapper::lookup may return; {} means "out of contract" (an occurrence >= 256)
Accepted(first, entries, failure, transparent, q) ==
  LET rgb == <<q[1], q[2], q[3]>>
      ids == IdsWith(first, entries, rgb)
  IN IF q[4] # 255 THEN {IF Len(transparent) = 1 THEN transparent[1] ELSE failure}
     ELSE IF ids = {} THEN {failure}
     ELSE IF \E i \in ids : i >= 256 THEN {}
     ELSE ids
LookupOk(first, entries, failure, transparent, q, got) ==
  LET acc == Accepted(first, entries, failure, transparent, q) IN acc = {} \/ got \in acc
=============================================================================
