------------------------------ MODULE AseBlend ------------------------------
(* Aseprite's blend algebra ("new layer blending method"): integer            *)
(* transcription of doc/blend_funcs.cpp. Mode numbers are the on-disk ids.    *)
(* Pixels are <<r, g, b, a>> with components in 0..255.                       *)
EXTENDS AseTypes, AseFloat

\* pixman MUL_UN8 / DIV_UN8; t may be negative in Blend8: >> is arithmetic = floor
MulUn8(a, b) == LET t == a * b + 128 IN ((t \div 256) + t) \div 256
DivUn8(a, b) == (a * 255 + (b \div 2)) \div b
Blend8(back, src, op) == back + MulUn8(src - back, op)

Normal(B, S, op) ==
  IF B[4] = 0 THEN <<S[1], S[2], S[3], MulUn8(S[4], op)>>
  ELSE IF S[4] = 0 THEN B
  ELSE LET sa == MulUn8(S[4], op)
           ra == sa + B[4] - MulUn8(B[4], sa)
       IN <<B[1] + TDiv((S[1]-B[1])*sa, ra), B[2] + TDiv((S[2]-B[2])*sa, ra),
            B[3] + TDiv((S[3]-B[3])*sa, ra), ra>>

Merge(B, S, op) ==
  LET ra == Blend8(B[4], S[4], op)
      rgb == IF B[4] = 0 THEN <<S[1], S[2], S[3]>>
             ELSE IF S[4] = 0 THEN <<B[1], B[2], B[3]>>
             ELSE <<Blend8(B[1], S[1], op), Blend8(B[2], S[2], op), Blend8(B[3], S[3], op)>>
  IN IF ra = 0 THEN <<0,0,0,0>> ELSE <<rgb[1], rgb[2], rgb[3], ra>>

ChMultiply(b, s) == MulUn8(b, s)
ChScreen(b, s) == b + s - MulUn8(b, s)
ChHardLight(b, s) == IF s < 128 THEN ChMultiply(b, 2*s) ELSE ChScreen(b, 2*s - 255)
ChOverlay(b, s) == ChHardLight(s, b)
ChDarken(b, s) == Min2(b, s)
ChLighten(b, s) == Max2(b, s)
ChColorDodge(b, s) == IF b = 0 THEN 0 ELSE LET s2 == 255 - s IN IF b >= s2 THEN 255 ELSE DivUn8(b, s2)
ChColorBurn(b, s) == IF b = 255 THEN 255 ELSE LET b2 == 255 - b IN IF b2 >= s THEN 0 ELSE 255 - DivUn8(b2, s)
ChDifference(b, s) == Abs(b - s)
ChExclusion(b, s) == b + s - 2 * MulUn8(b, s)
ChDivide(b, s) == IF b = 0 THEN 0 ELSE IF b >= s THEN 255 ELSE DivUn8(b, s)
ChAddition(b, s) == Min2(b + s, 255)
ChSubtract(b, s) == Max2(b - s, 0)

IntegerChannelModes == {1, 2, 3, 4, 5, 6, 7, 8, 10, 11, 16, 17, 18}
HslModes == {12, 13, 14, 15}

Chan(m, b, s) ==
  CASE m = 1 -> ChMultiply(b, s) [] m = 2 -> ChScreen(b, s) [] m = 3 -> ChOverlay(b, s)
    [] m = 4 -> ChDarken(b, s) [] m = 5 -> ChLighten(b, s) [] m = 6 -> ChColorDodge(b, s)
    [] m = 7 -> ChColorBurn(b, s) [] m = 8 -> ChHardLight(b, s) [] m = 9 -> SoftLightChan(b, s)
    [] m = 10 -> ChDifference(b, s) [] m = 11 -> ChExclusion(b, s)
    [] m = 16 -> ChAddition(b, s) [] m = 17 -> ChSubtract(b, s) [] m = 18 -> ChDivide(b, s)

\* the "blend source": what the mode feeds to Normal in place of the source colour
BlendSrc(m, B, S) ==
  IF m \in HslModes THEN LET c == HslSource(m, B, S) IN <<c[1], c[2], c[3], S[4]>>
  ELSE <<Chan(m, B[1], S[1]), Chan(m, B[2], S[2]), Chan(m, B[3], S[3]), S[4]>>

Blend(m, B, S, op) ==
  IF m = 0 \/ B[4] = 0 THEN Normal(B, S, op)
  ELSE LET norm == Normal(B, S, op)
           bl == Normal(B, BlendSrc(m, B, S), op)
           n2b == Merge(norm, bl, B[4])
           comp == MulUn8(B[4], MulUn8(S[4], op))
       IN Merge(n2b, bl, comp)

\* opacity a cel is composited with
CelOpacity(layerOp, celOp) == MulUn8(layerOp, celOp)

-----------------------------------------------------------------------------
\* Colour-free alpha skeleton: the alpha channel of Blend as a function of the
\* alphas alone (used to discharge the alpha law of C17 over all 2^24 triples).
NormalAlpha(Ba, Sa, op) ==
  IF Ba = 0 THEN MulUn8(Sa, op)
  ELSE IF Sa = 0 THEN Ba
  ELSE LET sa == MulUn8(Sa, op) IN sa + Ba - MulUn8(Ba, sa)
MergeAlpha(Ba, Sa, op) == Blend8(Ba, Sa, op)
\* alpha of Blend(m, ..) for m # 0 and Ba # 0: both Normal() calls see the same alphas
AlphaOf(nonNormal, Ba, Sa, op) ==
  IF ~nonNormal \/ Ba = 0 THEN NormalAlpha(Ba, Sa, op)
  ELSE LET na == NormalAlpha(Ba, Sa, op)
           n2b == MergeAlpha(na, na, Ba)
           comp == MulUn8(Ba, MulUn8(Sa, op))
       IN MergeAlpha(n2b, na, comp)

\* ---- the laws of C17, stated on the spec ----
AlphaLaw(m, B, S, op) == Blend(m, B, S, op)[4] = Normal(B, S, op)[4]
TransparentSourceLaw(m, B, S, op) ==
  (B[4] > 0 /\ (S[4] = 0 \/ op = 0)) => PixEq(Blend(m, B, S, op), B)
TransparentBackdropLaw(m, B, S, op) ==
  B[4] = 0 => PixEq(Blend(m, B, S, op), <<S[1], S[2], S[3], MulUn8(S[4], op)>>)
OpaqueNormalLaw(B, S) == S[4] = 255 => Blend(0, B, S, 255) = S
InRange(p) == \A i \in 1..4 : p[i] \in Byte
=============================================================================
