------------------------------ MODULE AseBlend ------------------------------
(* Aseprite's blend algebra ("new layer blending method"): integer            *)
(* transcription of doc/blend_funcs.cpp. Mode numbers are the on-disk ids.    *)
(* Pixels are <<r, g, b, a>> with components in 0..255.                       *)
EXTENDS AseTypes, AseFloat

\* MulUn8, DivUn8, Blend8, Normal, Merge, BlendWith and the alpha skeleton live in AseArith.tla, where TLAPS proves
\* the laws of C17 about them for every input (spec/tlaps/AseArithProofs.tla).

ChMultiply(b, s) == MulUn8(b, s)
ChScreen(b, s) == b + s - MulUn8(b, s)
ChHardLight(b, s) == IF s < 128 THEN ChMultiply(b, 2*s) ELSE ChScreen(b, 2*s - 255)
ChOverlay(b, s) == ChHardLight(s, b)
ChDarken(b, s) == Min2(b, s)
ChLighten(b, s) == Max2(b, s)
ChColorDodge(b, s) == IF b = 0 THEN 0 ELSE LET s2 == 255 - s IN IF b >= s2 THEN 255 ELSE DivUn8(b, s2)
ChColorBurn(b, s) == IF b = 255 THEN 255 ELSE LET b2 == 255 - b IN IF b2 >= s THEN 0 ELSE 255 - DivUn8(b2, s)
ChDifference(b, s) == Abs(b - s)
ChExclusion(b, s) == b + s - 2 * MulUn8(b, s)
ChDivide(b, s) == IF b = 0 THEN 0 ELSE IF b >= s THEN 255 ELSE DivUn8(b, s)
ChAddition(b, s) == Min2(b + s, 255)
ChSubtract(b, s) == Max2(b - s, 0)

IntegerChannelModes == {1, 2, 3, 4, 5, 6, 7, 8, 10, 11, 16, 17, 18}
HslModes == {12, 13, 14, 15}

Chan(m, b, s) ==
  CASE m = 1 -> ChMultiply(b, s) [] m = 2 -> ChScreen(b, s) [] m = 3 -> ChOverlay(b, s)
    [] m = 4 -> ChDarken(b, s) [] m = 5 -> ChLighten(b, s) [] m = 6 -> ChColorDodge(b, s)
    [] m = 7 -> ChColorBurn(b, s) [] m = 8 -> ChHardLight(b, s) [] m = 9 -> SoftLightChan(b, s)
    [] m = 10 -> ChDifference(b, s) [] m = 11 -> ChExclusion(b, s)
    [] m = 16 -> ChAddition(b, s) [] m = 17 -> ChSubtract(b, s) [] m = 18 -> ChDivide(b, s)

\* the "blend source": what the mode feeds to Normal in place of the source colour
BlendSrc(m, B, S) ==
  IF m \in HslModes THEN LET c == HslSource(m, B, S) IN <<c[1], c[2], c[3], S[4]>>
  ELSE <<Chan(m, B[1], S[1]), Chan(m, B[2], S[2]), Chan(m, B[3], S[3]), S[4]>>

Blend(m, B, S, op) ==
  IF m = 0 \/ B[4] = 0 THEN Normal(B, S, op)
  ELSE BlendWith(B, S, BlendSrc(m, B, S), op)

\* opacity a cel is composited with
CelOpacity(layerOp, celOp) == MulUn8(layerOp, celOp)

-----------------------------------------------------------------------------
\* ---- the laws of C17, stated on the spec ----
AlphaLaw(m, B, S, op) == Blend(m, B, S, op)[4] = Normal(B, S, op)[4]
TransparentSourceLaw(m, B, S, op) ==
  (B[4] > 0 /\ (S[4] = 0 \/ op = 0)) => PixEq(Blend(m, B, S, op), B)
TransparentBackdropLaw(m, B, S, op) ==
  B[4] = 0 => PixEq(Blend(m, B, S, op), <<S[1], S[2], S[3], MulUn8(S[4], op)>>)
OpaqueNormalLaw(B, S) == S[4] = 255 => Blend(0, B, S, 255) = S
InRange(p) == \A i \in 1..4 : p[i] \in Byte
=============================================================================
