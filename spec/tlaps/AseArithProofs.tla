--------------------------- MODULE AseArithProofs ---------------------------
(* Machine-checked (tlapm, SMT back end) proofs of the laws of C17 on the      *)
(* specification, for EVERY backdrop, source, blend source and opacity - not   *)
(* a sampled or bounded sub-space. They are about the definitions of           *)
(* AseArith.tla, which AseBlend.tla extends, MC_Blend model checks and         *)
(* Trace_Blend binds to the implementation's rendered pixels.                  *)
(*   AlphaLaw               alpha of every non-Normal mode = alpha of Normal   *)
(*   TransparentSourceLaw   S.a = 0 or opacity 0 leaves a visible backdrop     *)
(*   TransparentBackdropLaw B.a = 0 gives the source with scaled alpha         *)
(*   OpaqueNormalLaw        Normal, opacity 255, S.a = 255 returns S           *)
(*   NormalInRange, MergeInRange, BlendWithInRange: every channel in 0..255    *)
(* BlendWith is generic in the blend source X (X[4] = S[4]); that X is a pixel *)
(* for each of the 18 non-Normal modes is MC_Blend!ChannelInv (all 2^16 (b,s)  *)
(* per channel function) and the `& 255` of the HSL override.                  *)
EXTENDS AseArith, TLAPS
B8 == 0..255

LEMMA MulUn8Full == \A a \in B8 : MulUn8(a, 255) = a
  BY SMT DEF MulUn8, B8

LEMMA MulUn8ZeroR == \A a \in Int : MulUn8(a, 0) = 0
  BY SMT DEF MulUn8
LEMMA MulUn8ZeroL == \A a \in Int : MulUn8(0, a) = 0
  BY SMT DEF MulUn8

LEMMA Blend8Same == \A x \in Int, o \in Int : Blend8(x, x, o) = x
  BY MulUn8ZeroL, SMT DEF Blend8

LEMMA Blend8Zero == \A x \in Int, y \in Int : Blend8(x, y, 0) = x
  BY MulUn8ZeroR, SMT DEF Blend8

LEMMA Blend8Full == \A x \in B8, y \in B8 : Blend8(x, y, 255) = y
  BY SMT DEF Blend8, MulUn8, B8

LEMMA NormalAlphaInt == \A Ba \in Int, Sa \in Int, op \in Int : NormalAlpha(Ba, Sa, op) \in Int
  BY SMT DEF NormalAlpha, MulUn8

THEOREM AlphaLawSkeleton ==
  \A nn \in BOOLEAN, Ba \in Int, Sa \in Int, op \in Int :
     AlphaOf(nn, Ba, Sa, op) = NormalAlpha(Ba, Sa, op)
  <1> TAKE nn \in BOOLEAN, Ba \in Int, Sa \in Int, op \in Int
  <1> DEFINE na == NormalAlpha(Ba, Sa, op)
  <1>1. na \in Int BY NormalAlphaInt
  <1>2. MergeAlpha(na, na, Ba) = na BY <1>1, Blend8Same DEF MergeAlpha
  <1>3. \A c \in Int : MergeAlpha(na, na, c) = na BY <1>1, Blend8Same DEF MergeAlpha
  <1>4. MulUn8(Ba, MulUn8(Sa, op)) \in Int BY SMT DEF MulUn8
  <1> QED BY <1>2, <1>3, <1>4 DEF AlphaOf

Pix == B8 \X B8 \X B8 \X B8

LEMMA NormalAlphaIs == \A B \in Pix, S \in Pix, op \in B8 : Normal(B, S, op)[4] = NormalAlpha(B[4], S[4], op)
  BY SMT DEF Normal, NormalAlpha, Pix, B8

LEMMA MergeAlphaIs == \A P, Q, o : Merge(P, Q, o)[4] = Blend8(P[4], Q[4], o)
  BY DEF Merge

\* C17, first law: the alpha of every non-Normal mode is the alpha of Normal
THEOREM AlphaLaw ==
  \A B \in Pix, S \in Pix, X \in Pix, op \in B8 :
     X[4] = S[4] => BlendWith(B, S, X, op)[4] = Normal(B, S, op)[4]
  <1> TAKE B \in Pix, S \in Pix, X \in Pix, op \in B8
  <1> HAVE X[4] = S[4]
  <1> DEFINE na == NormalAlpha(B[4], S[4], op)
  <1>0. B[4] \in Int /\ S[4] \in Int /\ op \in Int BY DEF Pix, B8
  <1>1. Normal(B, S, op)[4] = na BY NormalAlphaIs
  <1>2. Normal(B, X, op)[4] = na BY NormalAlphaIs
  <1>3. na \in Int BY <1>0, NormalAlphaInt
  <1>4. Merge(Normal(B, S, op), Normal(B, X, op), B[4])[4] = na BY <1>1, <1>2, <1>3, <1>0, MergeAlphaIs, Blend8Same
  <1>5. MulUn8(B[4], MulUn8(S[4], op)) \in Int BY <1>0, SMT DEF MulUn8
  <1>6. BlendWith(B, S, X, op)[4] = Blend8(na, na, MulUn8(B[4], MulUn8(S[4], op)))
        BY <1>4, <1>2, MergeAlphaIs DEF BlendWith
  <1> QED BY <1>6, <1>5, <1>3, <1>1, Blend8Same

LEMMA MergeSame == \A P \in Pix, o \in Int : P[4] # 0 => Merge(P, P, o) = P
  <1> TAKE P \in Pix, o \in Int
  <1> HAVE P[4] # 0
  <1>1. P[1] \in Int /\ P[2] \in Int /\ P[3] \in Int /\ P[4] \in Int BY DEF Pix, B8
  <1>2. Blend8(P[1], P[1], o) = P[1] /\ Blend8(P[2], P[2], o) = P[2] /\ Blend8(P[3], P[3], o) = P[3] /\ Blend8(P[4], P[4], o) = P[4]
        BY <1>1, Blend8Same
  <1>3. P = <<P[1], P[2], P[3], P[4]>> BY DEF Pix
  <1> QED BY <1>2, <1>3 DEF Merge

LEMMA NormalTransparentSource ==
  \A B \in Pix, S \in Pix, op \in B8 : (B[4] # 0 /\ (S[4] = 0 \/ op = 0)) => Normal(B, S, op) = B
  <1> TAKE B \in Pix, S \in Pix, op \in B8
  <1> HAVE B[4] # 0 /\ (S[4] = 0 \/ op = 0)
  <1>1. CASE S[4] = 0 BY <1>1 DEF Normal
  <1>2. CASE S[4] # 0 /\ op = 0
    <2>1. MulUn8(S[4], op) = 0 BY <1>2, MulUn8ZeroR DEF Pix, B8
    <2>2. MulUn8(B[4], 0) = 0 BY MulUn8ZeroR DEF Pix, B8
    <2>3. B[4] \in 1..255 BY DEF Pix, B8
    <2>4. \A x \in Int : TDiv(x * 0, B[4]) = 0 BY <2>3, SMT DEF TDiv
    <2>5. B = <<B[1], B[2], B[3], B[4]>> /\ B[1] \in Int /\ B[2] \in Int /\ B[3] \in Int /\ S[1] \in Int /\ S[2] \in Int /\ S[3] \in Int BY DEF Pix, B8
    <2> QED BY <1>2, <2>1, <2>2, <2>3, <2>4, <2>5 DEF Normal
  <1> QED BY <1>1, <1>2

\* C17, second law: a transparent source pixel or a zero opacity leaves a visible backdrop pixel unchanged
THEOREM TransparentSourceLaw ==
  \A B \in Pix, S \in Pix, X \in Pix, op \in B8 :
     (X[4] = S[4] /\ B[4] # 0 /\ (S[4] = 0 \/ op = 0)) => BlendWith(B, S, X, op) = B /\ Normal(B, S, op) = B
  <1> TAKE B \in Pix, S \in Pix, X \in Pix, op \in B8
  <1> HAVE X[4] = S[4] /\ B[4] # 0 /\ (S[4] = 0 \/ op = 0)
  <1>1. Normal(B, S, op) = B BY NormalTransparentSource
  <1>2. Normal(B, X, op) = B BY NormalTransparentSource
  <1>3. B[4] \in Int /\ MulUn8(B[4], MulUn8(S[4], op)) \in Int BY SMT DEF MulUn8, Pix, B8
  <1>4. Merge(B, B, B[4]) = B BY <1>3, MergeSame
  <1>5. Merge(B, B, MulUn8(B[4], MulUn8(S[4], op))) = B BY <1>3, MergeSame
  <1> QED BY <1>1, <1>2, <1>4, <1>5 DEF BlendWith

\* C17, third law (Normal part; Blend() takes the Normal branch when B[4] = 0)
THEOREM TransparentBackdropLaw ==
  \A B \in Pix, S \in Pix, op \in B8 : B[4] = 0 => Normal(B, S, op) = <<S[1], S[2], S[3], MulUn8(S[4], op)>>
  BY DEF Normal

\* C17, fourth law: Normal at full opacity with an opaque source returns the source
THEOREM OpaqueNormalLaw ==
  \A B \in Pix, S \in Pix : S[4] = 255 => Normal(B, S, 255) = S
  <1> TAKE B \in Pix, S \in Pix
  <1> HAVE S[4] = 255
  <1>0. S = <<S[1], S[2], S[3], S[4]>> BY DEF Pix
  <1>1. MulUn8(255, 255) = 255 BY SMT DEF MulUn8
  <1>2. CASE B[4] = 0 BY <1>2, <1>1, <1>0 DEF Normal
  <1>3. CASE B[4] # 0
    <2>1. B[4] \in B8 BY DEF Pix
    <2>2. MulUn8(B[4], 255) = B[4] BY <2>1, MulUn8Full
    <2>3. \A x \in -255..255 : TDiv(x * 255, 255) = x BY SMT DEF TDiv
    <2>4. \A b \in B8, s \in B8 : b + TDiv((s - b) * 255, 255) = s BY <2>3, SMT DEF B8
    <2>5. B[1] \in B8 /\ B[2] \in B8 /\ B[3] \in B8 /\ S[1] \in B8 /\ S[2] \in B8 /\ S[3] \in B8 BY DEF Pix
    <2>6. 255 + B[4] - MulUn8(B[4], 255) = 255 BY <2>1, <2>2 DEF B8
    <2>7. Normal(B, S, 255) = <<B[1] + TDiv((S[1] - B[1]) * 255, 255), B[2] + TDiv((S[2] - B[2]) * 255, 255),
                                B[3] + TDiv((S[3] - B[3]) * 255, 255), 255>>
          BY <1>3, <1>1, <2>6 DEF Normal
    <2>8. B[1] + TDiv((S[1] - B[1]) * 255, 255) = S[1] /\ B[2] + TDiv((S[2] - B[2]) * 255, 255) = S[2]
          /\ B[3] + TDiv((S[3] - B[3]) * 255, 255) = S[3] BY <2>4, <2>5
    <2> QED BY <2>7, <2>8, <1>0
  <1> QED BY <1>2, <1>3

LEMMA MulUn8Range == \A a \in B8, b \in B8 : MulUn8(a, b) \in B8
  <1> TAKE a \in B8, b \in B8
  <1>1. a * b >= 0 /\ a * b <= 65025 BY SMT DEF B8
  <1> QED BY <1>1, SMT DEF MulUn8, B8

LEMMA MulUn8Le == \A a \in B8, b \in B8 : MulUn8(a, b) <= a /\ MulUn8(a, b) <= b
  <1> TAKE a \in B8, b \in B8
  <1>1. a * b >= 0 /\ a * b <= 255 * a /\ a * b <= 255 * b BY SMT DEF B8
  <1> QED BY <1>1, SMT DEF MulUn8, B8

\* the alpha of Normal stays a byte and is at least the (scaled) source alpha: the channel interpolation below
\* therefore never divides by zero and never leaves the interval spanned by backdrop and source
LEMMA NormalAlphaRange ==
  \A Ba \in B8, Sa \in B8, op \in B8 :
     /\ NormalAlpha(Ba, Sa, op) \in B8
     /\ (Ba # 0 /\ Sa # 0) => MulUn8(Sa, op) <= NormalAlpha(Ba, Sa, op) /\ NormalAlpha(Ba, Sa, op) >= 1
  <1> TAKE Ba \in B8, Sa \in B8, op \in B8
  <1> DEFINE sa == MulUn8(Sa, op)
  <1>1. sa \in B8 BY MulUn8Range
  <1>2. MulUn8(Ba, sa) \in B8 /\ MulUn8(Ba, sa) <= Ba /\ MulUn8(Ba, sa) <= sa BY <1>1, MulUn8Range, MulUn8Le
  <1>3. Ba * sa >= 0 /\ (255 - Ba) * (255 - sa) >= 0 BY <1>1, SMT DEF B8
  <1>4. sa + Ba - MulUn8(Ba, sa) <= 255
    <2>1. Ba * sa >= 255 * (Ba + sa) - 65025 BY <1>3, <1>1, SMT DEF B8
    <2> QED BY <2>1, <1>1, SMT DEF MulUn8, B8
  <1> QED BY <1>1, <1>2, <1>4, SMT DEF NormalAlpha, B8

LEMMA TDivLerp ==
  \A b \in B8, s \in B8, sa \in B8, ra \in 1..255 : sa <= ra =>
     /\ b + TDiv((s - b) * sa, ra) \in B8
  <1> TAKE b \in B8, s \in B8, sa \in B8, ra \in 1..255
  <1> HAVE sa <= ra
  <1>1. CASE s >= b
    <2>1. (s - b) * sa >= 0 /\ (s - b) * sa <= (s - b) * ra BY <1>1, SMT DEF B8
    <2>2. ((s - b) * sa) \div ra <= s - b BY <2>1, <1>1, SMT DEF B8
    <2>3. ((s - b) * sa) \div ra >= 0 BY <2>1, SMT DEF B8
    <2> QED BY <2>1, <2>2, <2>3, SMT DEF TDiv, B8
  <1>2. CASE s < b
    <2>1. (b - s) * sa >= 0 /\ (b - s) * sa <= (b - s) * ra /\ (s - b) * sa = -((b - s) * sa) BY <1>2, SMT DEF B8
    <2>2. ((b - s) * sa) \div ra <= b - s /\ ((b - s) * sa) \div ra >= 0 BY <2>1, <1>2, SMT DEF B8
    <2> QED BY <2>1, <2>2, SMT DEF TDiv, B8
  <1> QED BY <1>1, <1>2 DEF B8

\* C17, range clause for Normal: no channel leaves 0..255
THEOREM NormalInRange ==
  \A B \in Pix, S \in Pix, op \in B8 : Normal(B, S, op) \in Pix
  <1> TAKE B \in Pix, S \in Pix, op \in B8
  <1>0. /\ B[1] \in B8 /\ B[2] \in B8 /\ B[3] \in B8 /\ B[4] \in B8
        /\ S[1] \in B8 /\ S[2] \in B8 /\ S[3] \in B8 /\ S[4] \in B8 BY DEF Pix
  <1>1. CASE B[4] = 0 BY <1>1, <1>0, MulUn8Range DEF Normal, Pix
  <1>2. CASE B[4] # 0 /\ S[4] = 0 BY <1>2 DEF Normal
  <1>3. CASE B[4] # 0 /\ S[4] # 0
    <2> DEFINE sa == MulUn8(S[4], op)
    <2> DEFINE ra == sa + B[4] - MulUn8(B[4], sa)
    <2>1. sa \in B8 BY <1>0, MulUn8Range
    <2>2. ra = NormalAlpha(B[4], S[4], op) BY <1>3 DEF NormalAlpha
    <2>3. ra \in 1..255 /\ sa <= ra BY <2>2, <1>0, <1>3, NormalAlphaRange DEF B8
    <2>4. /\ B[1] + TDiv((S[1] - B[1]) * sa, ra) \in B8
          /\ B[2] + TDiv((S[2] - B[2]) * sa, ra) \in B8
          /\ B[3] + TDiv((S[3] - B[3]) * sa, ra) \in B8 BY <2>1, <2>3, <1>0, TDivLerp
    <2>5. ra \in B8 BY <2>3 DEF B8
    <2>6. Normal(B, S, op) = <<B[1] + TDiv((S[1] - B[1]) * sa, ra), B[2] + TDiv((S[2] - B[2]) * sa, ra),
                                B[3] + TDiv((S[3] - B[3]) * sa, ra), ra>> BY <1>3 DEF Normal
    <2> QED BY <2>4, <2>5, <2>6 DEF Pix
  <1> QED BY <1>1, <1>2, <1>3

LEMMA MulUn8Signed ==
  \A d \in -255..255, o \in B8 :
     /\ d >= 0 => (MulUn8(d, o) >= 0 /\ MulUn8(d, o) <= d)
     /\ d < 0 => (MulUn8(d, o) >= d /\ MulUn8(d, o) <= 0)
  <1> TAKE d \in -255..255, o \in B8
  <1>1. CASE d >= 0
    <2>1. d * o >= 0 /\ d * o <= 255 * d BY <1>1, SMT DEF B8
    <2> QED BY <2>1, <1>1, SMT DEF MulUn8, B8
  <1>2. CASE d < 0
    <2>1. d * o <= 0 /\ d * o >= 255 * d BY <1>2, SMT DEF B8
    <2> QED BY <2>1, <1>2, SMT DEF MulUn8, B8
  <1> QED BY <1>1, <1>2

LEMMA Blend8Range == \A b \in B8, s \in B8, o \in B8 : Blend8(b, s, o) \in B8
  <1> TAKE b \in B8, s \in B8, o \in B8
  <1> DEFINE d == s - b
  <1>1. d \in -255..255 BY DEF B8
  <1>2. /\ d >= 0 => (MulUn8(d, o) >= 0 /\ MulUn8(d, o) <= d)
        /\ d < 0 => (MulUn8(d, o) >= d /\ MulUn8(d, o) <= 0) BY <1>1, MulUn8Signed
  <1>3. Blend8(b, s, o) = b + MulUn8(d, o) BY DEF Blend8
  <1>4. MulUn8(d, o) \in Int BY <1>1, SMT DEF MulUn8, B8
  <1>5. d = s - b /\ b \in 0..255 /\ s \in 0..255 BY DEF B8
  <1> DEFINE m == MulUn8(d, o)
  <1>6. m \in Int /\ (d >= 0 => (m >= 0 /\ m <= d)) /\ (d < 0 => (m >= d /\ m <= 0)) BY <1>2, <1>4
  <1>7. b + m \in 0..255
    <2> HIDE DEF m, d
    <2> QED BY <1>5, <1>6, <1>1, SMT
  <1> QED BY <1>3, <1>7 DEF B8

THEOREM MergeInRange == \A P \in Pix, Q \in Pix, o \in B8 : Merge(P, Q, o) \in Pix
  <1> TAKE P \in Pix, Q \in Pix, o \in B8
  <1>0. /\ P[1] \in B8 /\ P[2] \in B8 /\ P[3] \in B8 /\ P[4] \in B8
        /\ Q[1] \in B8 /\ Q[2] \in B8 /\ Q[3] \in B8 /\ Q[4] \in B8 BY DEF Pix
  <1>1. /\ Blend8(P[1], Q[1], o) \in B8 /\ Blend8(P[2], Q[2], o) \in B8
        /\ Blend8(P[3], Q[3], o) \in B8 /\ Blend8(P[4], Q[4], o) \in B8 BY <1>0, Blend8Range
  <1>2. 0 \in B8 BY DEF B8
  <1> QED BY <1>0, <1>1, <1>2 DEF Merge, Pix

\* C17, range clause for every non-Normal mode whose blend source is a pixel
THEOREM BlendWithInRange ==
  \A B \in Pix, S \in Pix, X \in Pix, op \in B8 : BlendWith(B, S, X, op) \in Pix
  <1> TAKE B \in Pix, S \in Pix, X \in Pix, op \in B8
  <1>1. Normal(B, S, op) \in Pix /\ Normal(B, X, op) \in Pix BY NormalInRange
  <1>2. B[4] \in B8 /\ S[4] \in B8 BY DEF Pix
  <1>3. MulUn8(S[4], op) \in B8 BY <1>2, MulUn8Range
  <1>4. MulUn8(B[4], MulUn8(S[4], op)) \in B8 BY <1>2, <1>3, MulUn8Range
  <1>5. Merge(Normal(B, S, op), Normal(B, X, op), B[4]) \in Pix BY <1>1, <1>2, MergeInRange
  <1> QED BY <1>1, <1>4, <1>5, MergeInRange DEF BlendWith
=============================================================================
