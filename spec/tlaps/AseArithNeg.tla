---------------------------- MODULE AseArithNeg ----------------------------
(* Negative control for the TLAPS stage: a lemma that is false (254 is not    *)
(* the neutral opacity). tlapm must fail to prove it; if it "proves" it, the  *)
(* proof stage is vacuous and the check reports a tool error.                 *)
EXTENDS AseArith, TLAPS
B8 == 0..255
LEMMA Wrong == \A a \in B8 : MulUn8(a, 254) = a
  BY SMT DEF MulUn8, B8
=============================================================================
