------------------------------ MODULE Trace_Util ------------------------------
(* C18: results of asefile::util recorded by the harness, validated against AseUtil. *)
EXTENDS AseUtil, Json, IOUtils, TLC

Rec == ndJsonDeserialize(IOEnv.TRACE)
VARIABLE l
RejectReg == 42
Verdict(ok, info) == IF ok THEN TRUE ELSE PrintT(<<"REJECT", info>>) /\ TLCSet(RejectReg, TLCGet(RejectReg) + 1)
Count(reg, n) == TLCSet(reg, TLCGet(reg) + n)
IsEvent(e) == l <= Len(Rec) /\ Rec[l].ev = e /\ l' = l + 1

TExtrude == /\ IsEvent("extrude")
            /\ LET e == Rec[l] IN
                 /\ Count(43, 1)
                 /\ Verdict(e.panic = "" /\ e.out.w = e.w + 2 /\ e.out.h = e.h + 2 /\ e.out.px = Extrude(e.px, e.w, e.h),
                            <<"util", "util_extrude_border", e.w, e.h, e.px, e.panic>>)
TMap == /\ IsEvent("map")
        /\ LET e == Rec[l]
               bad == {k \in DOMAIN e.queries : ~LookupOk(e.first, e.entries, e.failure, e.transparent, e.queries[k], e.lookups[k])}
               badI == {k \in DOMAIN e.image.px : ~LookupOk(e.first, e.entries, e.failure, e.transparent, e.image.px[k], e.indexed.data[k])}
           IN /\ Count(44, Len(e.queries)) /\ Count(45, 1)
              /\ Verdict(e.panic = "" /\ Len(e.lookups) = Len(e.queries) /\ bad = {},
                         <<"util", "util_palette_lookup", e.first, e.entries, e.failure, e.transparent,
                           IF bad = {} THEN <<>> ELSE LET k == CHOOSE k \in bad : TRUE IN <<e.queries[k], e.lookups[k]>>>>)
              /\ Verdict(e.panic = "" /\ e.indexed.dims = <<e.image.w, e.image.h>> /\ Len(e.indexed.data) = e.image.w * e.image.h /\ badI = {},
                         <<"util", "util_to_indexed_image", e.first, e.entries, e.indexed.dims>>)
TraceInit == l = 1 /\ TLCSet(RejectReg, 0) /\ TLCSet(43, 0) /\ TLCSet(44, 0) /\ TLCSet(45, 0)
TraceSpec == TraceInit /\ [][TExtrude \/ TMap]_l
TraceAccepted ==
  LET d == TLCGet("stats").diameter IN
  /\ IF d - 1 = Len(Rec) THEN TRUE ELSE Print(<<"TRACE-STUCK at event", d>>, FALSE)
  /\ PrintT(<<"OUTCOMES", TLCGet(43), TLCGet(44), TLCGet(45), 0>>)
  /\ IF TLCGet(RejectReg) = 0 THEN TRUE ELSE Print(<<"TRACE-REJECTS", TLCGet(RejectReg)>>, FALSE)
=============================================================================
