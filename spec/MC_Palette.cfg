SPECIFICATION Spec
CONSTANTS MaxChunks = 2
MaxPixels = 2
INVARIANTS PaletteInv Export
CHECK_DEADLOCK FALSE
