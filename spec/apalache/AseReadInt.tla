------------------------------- MODULE AseReadInt -------------------------------
(* Integer abstraction of AseRead for an UNBOUNDED argument (Apalache): the request  *)
(* list is abstracted to the outstanding bytes of the current request (need) and the  *)
(* total of the requests still to come (rest). Every behaviour of AseRead projects    *)
(* onto a behaviour of this machine (need/rest are sums over the request list).       *)
(* IndInv is inductive; it implies                                                    *)
(*   TruncatedFails : avail < needed => result # "ok"                    (C13)        *)
(*   NeverBeyond    : pos <= needed /\ pos <= avail                      (C14)        *)
(*   OkMeansAll     : result = "ok" => pos = needed                      (C14)        *)
(* for streams, request lists, short reads and interrupts of ANY size.                *)
EXTENDS Integers

VARIABLES
  \* @type: Int;
  needed,
  \* @type: Int;
  avail,
  \* @type: Int;
  need,
  \* @type: Int;
  rest,
  \* @type: Int;
  pos,
  \* @type: Str;
  result

Init == /\ needed \in Nat /\ avail \in Nat
        /\ need \in Nat /\ rest \in Nat /\ need + rest = needed
        /\ (needed > 0 => need > 0)
        /\ pos = 0
        /\ result = IF needed = 0 THEN "ok" ELSE "running"

\* a read(len = need) call answered with n bytes, 1 <= n <= min(need, avail - pos)
Deliver == /\ result = "running" /\ pos < avail
           /\ \E n \in Nat :
                /\ n >= 1 /\ n <= need /\ n <= avail - pos
                /\ pos' = pos + n
                /\ IF n < need THEN need' = need - n /\ rest' = rest /\ result' = "running"
                   ELSE IF rest = 0 THEN need' = 0 /\ rest' = 0 /\ result' = "ok"
                   ELSE \E k \in Nat : k >= 1 /\ k <= rest /\ need' = k /\ rest' = rest - k /\ result' = "running"
           /\ UNCHANGED <<needed, avail>>
Eof == result = "running" /\ pos = avail /\ result' = "io" /\ UNCHANGED <<needed, avail, need, rest, pos>>
Interrupt == result = "running" /\ UNCHANGED <<needed, avail, need, rest, pos, result>>
Hard == result = "running" /\ result' = "io" /\ UNCHANGED <<needed, avail, need, rest, pos>>
Next == Deliver \/ Eof \/ Interrupt \/ Hard

TypeOK == /\ needed \in Nat /\ avail \in Nat /\ need \in Nat /\ rest \in Nat /\ pos \in Nat
          /\ result \in {"running", "ok", "io"}
IndInv == /\ TypeOK
          /\ pos + need + rest = needed
          /\ pos <= avail
          /\ (result = "running") => need >= 1
          /\ (result = "ok") => (need = 0 /\ rest = 0)
TruncatedFails == avail < needed => result # "ok"
NeverBeyond == pos <= needed /\ pos <= avail
OkMeansAll == result = "ok" => pos = needed
Safety == TruncatedFails /\ NeverBeyond /\ OkMeansAll
=============================================================================
