SPECIFICATION Spec
CONSTANTS Lattice = {0, 128, 255}
Ops = {0, 1, 128, 255}
INVARIANTS AlphaLawInv NormalAlphaInv ProductInv ChannelInv LerpInv SkeletonInv LatticeLawsInv
CHECK_DEADLOCK FALSE
