//! Program model (the shared vocabulary of DESIGN.md Appendix C) and the byte encoder.
//! The encoder is the only place that knows byte offsets; it also produces the field
//! table used by the structured fault generator.
use serde::de::{self, Visitor};
use serde::{Deserialize, Deserializer, Serialize, Serializer};
use std::fmt;
use std::io::Write;

// ---------------------------------------------------------------------------------------
// 32-bit carriers. TLC integers are Java ints and its JSON reader wraps >= 2^31, so values
// that are only carried travel as decimal strings (U32S/I32S); values the spec does
// arithmetic on travel as numbers when < 2^31 and as strings otherwise (U32N).

macro_rules! strnum {
    ($name:ident, $t:ty, $always_string:expr) => {
        #[derive(Clone, Copy, Debug, Default, PartialEq, Eq, PartialOrd, Ord, Hash)]
        pub struct $name(pub $t);
        impl Serialize for $name {
            fn serialize<S: Serializer>(&self, s: S) -> Result<S::Ok, S::Error> {
                if $always_string || (self.0 as i64) >= (1i64 << 31) {
                    s.serialize_str(&self.0.to_string())
                } else {
                    s.serialize_i64(self.0 as i64)
                }
            }
        }
        impl<'de> Deserialize<'de> for $name {
            fn deserialize<D: Deserializer<'de>>(d: D) -> Result<Self, D::Error> {
                struct V;
                impl<'de> Visitor<'de> for V {
                    type Value = $name;
                    fn expecting(&self, f: &mut fmt::Formatter) -> fmt::Result {
                        f.write_str("number or decimal string")
                    }
                    fn visit_str<E: de::Error>(self, v: &str) -> Result<$name, E> {
                        v.parse::<$t>().map($name).map_err(|e| E::custom(format!("{}: {}", v, e)))
                    }
                    fn visit_i64<E: de::Error>(self, v: i64) -> Result<$name, E> {
                        <$t>::try_from(v).map($name).map_err(|e| E::custom(format!("{}: {}", v, e)))
                    }
                    fn visit_u64<E: de::Error>(self, v: u64) -> Result<$name, E> {
                        <$t>::try_from(v).map($name).map_err(|e| E::custom(format!("{}: {}", v, e)))
                    }
                }
                d.deserialize_any(V)
            }
        }
    };
}
strnum!(U32S, u32, true);
strnum!(I32S, i32, true);
strnum!(U32N, u32, false);

// ---------------------------------------------------------------------------------------

fn d_one_u8() -> u8 {
    1
}
fn d_depth() -> u16 {
    32
}
fn d_one_u16() -> u16 {
    1
}
fn d_both() -> String {
    "both".into()
}
fn d_z6() -> String {
    "z6".into()
}
fn d_255() -> u8 {
    255
}
fn d_bits() -> u16 {
    32
}
fn d_masks() -> [U32N; 4] {
    [U32N(0x1fff_ffff), U32N(0x8000_0000), U32N(0x4000_0000), U32N(0x2000_0000)]
}
fn d_flags1() -> u16 {
    1
}
fn d_fmagic() -> u16 {
    0xF1FA
}
fn d_hmagic() -> u16 {
    0xA5E0
}

#[derive(Serialize, Deserialize, Clone, Debug)]
pub struct Hdr {
    #[serde(default)]
    pub nframes: Option<u16>,
    #[serde(default = "d_one_u16")]
    pub w: u16,
    #[serde(default = "d_one_u16")]
    pub h: u16,
    #[serde(default = "d_depth")]
    pub depth: u16,
    #[serde(default)]
    pub tidx: u8,
    #[serde(default = "d_one_u8")]
    pub pixw: u8,
    #[serde(default = "d_one_u8")]
    pub pixh: u8,
    // unused / ignored fields
    #[serde(default = "d_hmagic")]
    pub magic: u16,
    #[serde(default)]
    pub flags: U32S,
    #[serde(default)]
    pub speed: u16,
    #[serde(default)]
    pub ncolors: u16,
    #[serde(default)]
    pub grid: [i16; 2],
    #[serde(default)]
    pub gridsz: [u16; 2],
    #[serde(default)]
    pub fsize: Option<U32S>,
    #[serde(default)]
    pub rsv: u8,
}
impl Default for Hdr {
    fn default() -> Self {
        serde_json::from_str("{}").unwrap()
    }
}

#[derive(Serialize, Deserialize, Clone, Debug)]
pub struct FrameP {
    #[serde(default)]
    pub dur: u16,
    #[serde(default)]
    pub chunks: Vec<Chunk>,
    #[serde(default = "d_both")]
    pub count_field: String,
    /// extra bytes appended inside chunk i (size field adjusted)
    #[serde(default)]
    pub pads: Vec<u32>,
    #[serde(default = "d_fmagic")]
    pub magic: u16,
    #[serde(default)]
    pub rsv: u16,
}
impl Default for FrameP {
    fn default() -> Self {
        serde_json::from_str("{}").unwrap()
    }
}

#[derive(Serialize, Deserialize, Clone, Debug, Default)]
pub struct Program {
    #[serde(default)]
    pub hdr: Hdr,
    #[serde(default)]
    pub frames: Vec<FrameP>,
    /// bytes after the last frame
    #[serde(default)]
    pub trailing: Vec<u8>,
}

#[derive(Serialize, Deserialize, Clone, Debug, Default)]
pub struct LayerC {
    #[serde(default = "d_flags1")]
    pub flags: u16,
    #[serde(default)]
    pub ltype: u16,
    #[serde(default)]
    pub level: u16,
    #[serde(default)]
    pub blend: u16,
    #[serde(default = "d_255")]
    pub opacity: u8,
    #[serde(default)]
    pub name: Vec<u8>,
    /// option: tileset index, written iff ltype == 2
    #[serde(default)]
    pub tileset: Vec<U32S>,
    #[serde(default)]
    pub dw: u16,
    #[serde(default)]
    pub dh: u16,
    #[serde(default)]
    pub rsv: u8,
}

#[derive(Serialize, Deserialize, Clone, Debug, Default)]
pub struct CelC {
    #[serde(default)]
    pub layer: u16,
    #[serde(default)]
    pub x: i16,
    #[serde(default)]
    pub y: i16,
    #[serde(default = "d_255")]
    pub opacity: u8,
    /// 0 raw, 1 linked, 2 zlib image, 3 zlib tilemap
    #[serde(default)]
    pub ctype: u16,
    #[serde(default)]
    pub w: u16,
    #[serde(default)]
    pub h: u16,
    /// pixels, each a byte vector of the sprite's bytes-per-pixel
    #[serde(default)]
    pub px: Vec<Vec<u8>>,
    #[serde(default)]
    pub link: u16,
    #[serde(default)]
    pub tiles: Vec<U32N>,
    #[serde(default = "d_bits")]
    pub bits: u16,
    #[serde(default = "d_masks")]
    pub masks: [U32N; 4],
    /// "z0".."z9" | "stored" (hand-made stored deflate blocks)
    #[serde(default = "d_z6")]
    pub store: String,
    /// unused reserved bytes (z-index etc.)
    #[serde(default)]
    pub rsv: u8,
}

#[derive(Serialize, Deserialize, Clone, Debug, Default)]
pub struct TagP {
    #[serde(default)]
    pub from: u16,
    #[serde(default)]
    pub to: u16,
    #[serde(default)]
    pub dir: u8,
    #[serde(default)]
    pub repeat: u16,
    #[serde(default)]
    pub color: U32S,
    #[serde(default)]
    pub name: Vec<u8>,
}
#[derive(Serialize, Deserialize, Clone, Debug, Default)]
pub struct TagsC {
    #[serde(default)]
    pub tags: Vec<TagP>,
}

#[derive(Serialize, Deserialize, Clone, Debug, Default)]
pub struct S9P {
    pub cx: I32S,
    pub cy: I32S,
    pub cw: U32S,
    pub ch: U32S,
}
#[derive(Serialize, Deserialize, Clone, Debug, Default)]
pub struct PivP {
    pub x: I32S,
    pub y: I32S,
}
#[derive(Serialize, Deserialize, Clone, Debug, Default)]
pub struct KeyP {
    #[serde(default)]
    pub frame: U32S,
    #[serde(default)]
    pub x: I32S,
    #[serde(default)]
    pub y: I32S,
    #[serde(default)]
    pub w: U32S,
    #[serde(default)]
    pub h: U32S,
    /// written iff slice flags & 1
    #[serde(default)]
    pub s9: S9P,
    /// written iff slice flags & 2
    #[serde(default)]
    pub pivot: PivP,
}
#[derive(Serialize, Deserialize, Clone, Debug, Default)]
pub struct SliceC {
    #[serde(default)]
    pub name: Vec<u8>,
    #[serde(default)]
    pub flags: U32N,
    #[serde(default)]
    pub keys: Vec<KeyP>,
    #[serde(default)]
    pub rsv: U32S,
}

#[derive(Serialize, Deserialize, Clone, Debug, Default)]
pub struct UdC {
    /// option
    #[serde(default)]
    pub text: Vec<Vec<u8>>,
    /// option
    #[serde(default)]
    pub color: Vec<[u8; 4]>,
}

#[derive(Serialize, Deserialize, Clone, Debug, Default)]
pub struct PalE {
    #[serde(default)]
    pub flags: u16,
    #[serde(default)]
    pub rgba: [u8; 4],
    #[serde(default)]
    pub name: Vec<u8>,
}
#[derive(Serialize, Deserialize, Clone, Debug, Default)]
pub struct PalC {
    #[serde(default)]
    pub total: U32S,
    #[serde(default)]
    pub first: U32N,
    #[serde(default)]
    pub last: U32N,
    #[serde(default)]
    pub entries: Vec<PalE>,
}
#[derive(Serialize, Deserialize, Clone, Debug, Default)]
pub struct PacketP {
    #[serde(default)]
    pub skip: u8,
    /// the count *byte* (0 means 256)
    #[serde(default)]
    pub count: u8,
    #[serde(default)]
    pub rgb: Vec<[u8; 3]>,
}
#[derive(Serialize, Deserialize, Clone, Debug, Default)]
pub struct OldPalC {
    #[serde(default)]
    pub packets: Vec<PacketP>,
}
#[derive(Serialize, Deserialize, Clone, Debug, Default)]
pub struct ProfileC {
    #[serde(default = "d_one_u16")]
    pub ptype: u16,
    #[serde(default)]
    pub flags: u16,
    #[serde(default)]
    pub gamma: U32S,
    #[serde(default)]
    pub icc: Vec<u8>,
}
#[derive(Serialize, Deserialize, Clone, Debug, Default)]
pub struct ExtE {
    #[serde(default)]
    pub id: U32S,
    #[serde(default)]
    pub etype: u8,
    #[serde(default)]
    pub name: Vec<u8>,
}
#[derive(Serialize, Deserialize, Clone, Debug, Default)]
pub struct ExtFilesC {
    #[serde(default)]
    pub entries: Vec<ExtE>,
}
#[derive(Serialize, Deserialize, Clone, Debug, Default)]
pub struct ExtRef {
    pub file: U32S,
    pub ts: U32S,
}
fn d_tsflags() -> u32 {
    2 | 4
}
#[derive(Serialize, Deserialize, Clone, Debug, Default)]
pub struct TilesetC {
    #[serde(default)]
    pub id: U32S,
    /// bit0 external link, bit1 embedded tiles, bit2 empty tile is id 0
    #[serde(default = "d_tsflags")]
    pub flags: u32,
    #[serde(default)]
    pub count: U32N,
    #[serde(default = "d_one_u16")]
    pub tw: u16,
    #[serde(default = "d_one_u16")]
    pub th: u16,
    #[serde(default)]
    pub base: i16,
    #[serde(default)]
    pub name: Vec<u8>,
    /// written iff flags & 1
    #[serde(default)]
    pub ext: ExtRef,
    /// all tile pixels in order, written (zlib) iff flags & 2
    #[serde(default)]
    pub px: Vec<Vec<u8>>,
    #[serde(default = "d_z6")]
    pub store: String,
}
#[derive(Serialize, Deserialize, Clone, Debug, Default)]
pub struct IgnC {
    #[serde(default)]
    pub body: Vec<u8>,
}
#[derive(Serialize, Deserialize, Clone, Debug, Default)]
pub struct RawC {
    #[serde(default)]
    pub code: u16,
    #[serde(default)]
    pub body: Vec<u8>,
}

#[derive(Serialize, Deserialize, Clone, Debug)]
#[serde(tag = "k")]
pub enum Chunk {
    #[serde(rename = "layer")]
    Layer(LayerC),
    #[serde(rename = "cel")]
    Cel(CelC),
    #[serde(rename = "tags")]
    Tags(TagsC),
    #[serde(rename = "slice")]
    Slice(SliceC),
    #[serde(rename = "ud")]
    Ud(UdC),
    #[serde(rename = "pal")]
    Pal(PalC),
    #[serde(rename = "oldpal04")]
    OldPal04(OldPalC),
    #[serde(rename = "oldpal11")]
    OldPal11(OldPalC),
    #[serde(rename = "profile")]
    Profile(ProfileC),
    #[serde(rename = "extfiles")]
    ExtFiles(ExtFilesC),
    #[serde(rename = "tileset")]
    Tileset(TilesetC),
    #[serde(rename = "celextra")]
    CelExtra(IgnC),
    #[serde(rename = "mask")]
    Mask(IgnC),
    #[serde(rename = "path")]
    Path(IgnC),
    #[serde(rename = "raw")]
    Raw(RawC),
}

impl Chunk {
    pub fn code(&self) -> u16 {
        match self {
            Chunk::OldPal04(_) => 0x0004,
            Chunk::OldPal11(_) => 0x0011,
            Chunk::Layer(_) => 0x2004,
            Chunk::Cel(_) => 0x2005,
            Chunk::CelExtra(_) => 0x2006,
            Chunk::Profile(_) => 0x2007,
            Chunk::ExtFiles(_) => 0x2008,
            Chunk::Mask(_) => 0x2016,
            Chunk::Path(_) => 0x2017,
            Chunk::Tags(_) => 0x2018,
            Chunk::Pal(_) => 0x2019,
            Chunk::Ud(_) => 0x2020,
            Chunk::Slice(_) => 0x2022,
            Chunk::Tileset(_) => 0x2023,
            Chunk::Raw(r) => r.code,
        }
    }
    pub fn kind(&self) -> &'static str {
        match self {
            Chunk::OldPal04(_) => "oldpal04",
            Chunk::OldPal11(_) => "oldpal11",
            Chunk::Layer(_) => "layer",
            Chunk::Cel(_) => "cel",
            Chunk::CelExtra(_) => "celextra",
            Chunk::Profile(_) => "profile",
            Chunk::ExtFiles(_) => "extfiles",
            Chunk::Mask(_) => "mask",
            Chunk::Path(_) => "path",
            Chunk::Tags(_) => "tags",
            Chunk::Pal(_) => "pal",
            Chunk::Ud(_) => "ud",
            Chunk::Slice(_) => "slice",
            Chunk::Tileset(_) => "tileset",
            Chunk::Raw(_) => "raw",
        }
    }
}

impl Program {
    /// Fill the fields that have a derived default so that the serialised form is total
    /// (TLC cannot read `null` and cannot access missing record fields).
    pub fn normalize(&mut self) {
        if self.hdr.nframes.is_none() {
            self.hdr.nframes = Some(self.frames.len() as u16);
        }
        if self.hdr.fsize.is_none() {
            self.hdr.fsize = Some(U32S(0));
        }
        for f in &mut self.frames {
            f.pads.resize(f.chunks.len(), 0);
        }
    }
    pub fn bpp(&self) -> usize {
        match self.hdr.depth {
            8 => 1,
            16 => 2,
            _ => 4,
        }
    }
}

// ---------------------------------------------------------------------------------------
// Encoder

#[derive(Clone, Debug, Serialize)]
pub struct Field {
    pub name: String,
    pub off: usize,
    pub width: usize,
    /// size | count | index | offset | enum | len | magic | flag | value | dim
    pub class: &'static str,
}

#[derive(Default)]
pub struct Enc {
    pub buf: Vec<u8>,
    pub fields: Vec<Field>,
    prefix: String,
}

impl Enc {
    fn mark(&mut self, name: &str, width: usize, class: &'static str) {
        self.fields.push(Field { name: format!("{}{}", self.prefix, name), off: self.buf.len(), width, class });
    }
    fn u8(&mut self, v: u8) {
        self.buf.push(v)
    }
    fn u16(&mut self, v: u16) {
        self.buf.extend_from_slice(&v.to_le_bytes())
    }
    fn i16(&mut self, v: i16) {
        self.buf.extend_from_slice(&v.to_le_bytes())
    }
    fn u32(&mut self, v: u32) {
        self.buf.extend_from_slice(&v.to_le_bytes())
    }
    fn i32(&mut self, v: i32) {
        self.buf.extend_from_slice(&v.to_le_bytes())
    }
    fn fill(&mut self, n: usize, v: u8) {
        self.buf.extend(std::iter::repeat(v).take(n))
    }
    fn f8(&mut self, name: &str, class: &'static str, v: u8) {
        self.mark(name, 1, class);
        self.u8(v)
    }
    fn f16(&mut self, name: &str, class: &'static str, v: u16) {
        self.mark(name, 2, class);
        self.u16(v)
    }
    fn fi16(&mut self, name: &str, class: &'static str, v: i16) {
        self.mark(name, 2, class);
        self.i16(v)
    }
    fn f32(&mut self, name: &str, class: &'static str, v: u32) {
        self.mark(name, 4, class);
        self.u32(v)
    }
    fn fi32(&mut self, name: &str, class: &'static str, v: i32) {
        self.mark(name, 4, class);
        self.i32(v)
    }
    fn string(&mut self, name: &str, s: &[u8]) {
        self.mark(&format!("{}.len", name), 2, "len");
        self.u16(s.len() as u16);
        self.buf.extend_from_slice(s);
    }
}

pub fn adler32(data: &[u8]) -> u32 {
    let (mut a, mut b) = (1u32, 0u32);
    for &d in data {
        a = (a + d as u32) % 65521;
        b = (b + a) % 65521;
    }
    (b << 16) | a
}

pub fn zlib(data: &[u8], store: &str) -> Vec<u8> {
    if store == "stored" {
        // zlib header (no compression), stored deflate blocks, adler32 big endian
        let mut out = vec![0x78, 0x01];
        let mut chunks: Vec<&[u8]> = data.chunks(65535).collect();
        if chunks.is_empty() {
            chunks.push(&[]);
        }
        let n = chunks.len();
        for (i, c) in chunks.iter().enumerate() {
            out.push(if i + 1 == n { 1 } else { 0 });
            let len = c.len() as u16;
            out.extend_from_slice(&len.to_le_bytes());
            out.extend_from_slice(&(!len).to_le_bytes());
            out.extend_from_slice(c);
        }
        out.extend_from_slice(&adler32(data).to_be_bytes());
        out
    } else {
        let level = store.trim_start_matches('z').parse::<u32>().unwrap_or(6).min(9);
        let mut e = flate2::write::ZlibEncoder::new(Vec::new(), flate2::Compression::new(level));
        e.write_all(data).unwrap();
        e.finish().unwrap()
    }
}

fn flat(px: &[Vec<u8>]) -> Vec<u8> {
    px.iter().flat_map(|p| p.iter().copied()).collect()
}

fn chunk_body(c: &Chunk, e: &mut Enc) {
    match c {
        Chunk::Layer(l) => {
            e.f16("flags", "flag", l.flags);
            e.f16("ltype", "enum", l.ltype);
            e.f16("level", "index", l.level);
            e.f16("dw", "value", l.dw);
            e.f16("dh", "value", l.dh);
            e.f16("blend", "enum", l.blend);
            e.f8("opacity", "value", l.opacity);
            e.fill(3, l.rsv);
            e.string("name", &l.name);
            if l.ltype == 2 {
                e.f32("tileset", "index", l.tileset.first().map_or(0, |t| t.0));
            }
        }
        Chunk::Cel(c) => {
            e.f16("layer", "index", c.layer);
            e.fi16("x", "offset", c.x);
            e.fi16("y", "offset", c.y);
            e.f8("opacity", "value", c.opacity);
            e.f16("ctype", "enum", c.ctype);
            e.fill(7, c.rsv);
            match c.ctype {
                0 => {
                    e.f16("w", "dim", c.w);
                    e.f16("h", "dim", c.h);
                    e.buf.extend(flat(&c.px));
                }
                1 => e.f16("link", "index", c.link),
                3 => {
                    e.f16("w", "dim", c.w);
                    e.f16("h", "dim", c.h);
                    e.f16("bits", "enum", c.bits);
                    for (i, m) in c.masks.iter().enumerate() {
                        e.f32(&format!("mask{}", i), "value", m.0);
                    }
                    e.fill(10, c.rsv);
                    let raw: Vec<u8> = c.tiles.iter().flat_map(|t| t.0.to_le_bytes()).collect();
                    e.mark("zdata", 0, "value");
                    e.buf.extend(zlib(&raw, &c.store));
                }
                _ => {
                    // 2 and (for fault injection) any unknown type: image layout
                    e.f16("w", "dim", c.w);
                    e.f16("h", "dim", c.h);
                    e.mark("zdata", 0, "value");
                    e.buf.extend(zlib(&flat(&c.px), &c.store));
                }
            }
        }
        Chunk::Tags(t) => {
            e.f16("ntags", "count", t.tags.len() as u16);
            e.fill(8, 0);
            for (i, t) in t.tags.iter().enumerate() {
                let p = format!("tag{}.", i);
                e.f16(&format!("{}from", p), "index", t.from);
                e.f16(&format!("{}to", p), "index", t.to);
                e.f8(&format!("{}dir", p), "enum", t.dir);
                e.f16(&format!("{}repeat", p), "value", t.repeat);
                e.fill(6, 0);
                e.f32(&format!("{}color", p), "value", t.color.0);
                e.string(&format!("{}name", p), &t.name);
            }
        }
        Chunk::Slice(s) => {
            e.f32("nkeys", "count", s.keys.len() as u32);
            e.f32("flags", "flag", s.flags.0);
            e.f32("rsv", "value", s.rsv.0);
            e.string("name", &s.name);
            for (i, k) in s.keys.iter().enumerate() {
                let p = format!("key{}.", i);
                e.f32(&format!("{}frame", p), "index", k.frame.0);
                e.fi32(&format!("{}x", p), "offset", k.x.0);
                e.fi32(&format!("{}y", p), "offset", k.y.0);
                e.f32(&format!("{}w", p), "dim", k.w.0);
                e.f32(&format!("{}h", p), "dim", k.h.0);
                if s.flags.0 & 1 != 0 {
                    e.i32(k.s9.cx.0);
                    e.i32(k.s9.cy.0);
                    e.u32(k.s9.cw.0);
                    e.u32(k.s9.ch.0);
                }
                if s.flags.0 & 2 != 0 {
                    e.i32(k.pivot.x.0);
                    e.i32(k.pivot.y.0);
                }
            }
        }
        Chunk::Ud(u) => {
            let flags = (!u.text.is_empty() as u32) | ((!u.color.is_empty() as u32) << 1);
            e.f32("flags", "flag", flags);
            if let Some(t) = u.text.first() {
                e.string("text", t);
            }
            if let Some(c) = u.color.first() {
                e.buf.extend_from_slice(c);
            }
        }
        Chunk::Pal(p) => {
            e.f32("total", "count", p.total.0);
            e.f32("first", "index", p.first.0);
            e.f32("last", "index", p.last.0);
            e.fill(8, 0);
            for (i, en) in p.entries.iter().enumerate() {
                e.f16(&format!("e{}.flags", i), "flag", en.flags);
                e.buf.extend_from_slice(&en.rgba);
                if en.flags & 1 == 1 {
                    e.string(&format!("e{}.name", i), &en.name);
                }
            }
        }
        Chunk::OldPal04(p) | Chunk::OldPal11(p) => {
            e.f16("npackets", "count", p.packets.len() as u16);
            for (i, pk) in p.packets.iter().enumerate() {
                e.f8(&format!("p{}.skip", i), "offset", pk.skip);
                e.f8(&format!("p{}.count", i), "count", pk.count);
                for (j, c) in pk.rgb.iter().enumerate() {
                    if j == 0 {
                        e.mark(&format!("p{}.rgb0", i), 1, "value");
                    }
                    e.buf.extend_from_slice(c);
                }
            }
        }
        Chunk::Profile(p) => {
            e.f16("ptype", "enum", p.ptype);
            e.f16("flags", "flag", p.flags);
            e.f32("gamma", "value", p.gamma.0);
            e.fill(8, 0);
            if p.ptype == 2 {
                e.f32("icclen", "len", p.icc.len() as u32);
                e.buf.extend_from_slice(&p.icc);
            }
        }
        Chunk::ExtFiles(x) => {
            e.f32("count", "count", x.entries.len() as u32);
            e.fill(8, 0);
            for (i, en) in x.entries.iter().enumerate() {
                e.f32(&format!("e{}.id", i), "value", en.id.0);
                e.u8(en.etype);
                e.fill(7, 0);
                e.string(&format!("e{}.name", i), &en.name);
            }
        }
        Chunk::Tileset(t) => {
            e.f32("id", "value", t.id.0);
            e.f32("flags", "flag", t.flags);
            e.f32("count", "count", t.count.0);
            e.f16("tw", "dim", t.tw);
            e.f16("th", "dim", t.th);
            e.fi16("base", "value", t.base);
            e.fill(14, 0);
            e.string("name", &t.name);
            if t.flags & 1 != 0 {
                e.f32("extfile", "value", t.ext.file.0);
                e.f32("extts", "value", t.ext.ts.0);
            }
            if t.flags & 2 != 0 {
                let z = zlib(&flat(&t.px), &t.store);
                e.f32("clen", "len", z.len() as u32);
                e.mark("zdata", 0, "value");
                e.buf.extend(z);
            }
        }
        Chunk::CelExtra(i) | Chunk::Mask(i) | Chunk::Path(i) => e.buf.extend_from_slice(&i.body),
        Chunk::Raw(r) => e.buf.extend_from_slice(&r.body),
    }
}

pub struct Encoded {
    pub bytes: Vec<u8>,
    pub fields: Vec<Field>,
    /// offset just past the last frame (before trailing bytes)
    pub end_of_frames: usize,
    /// offsets at which each frame starts
    pub frame_starts: Vec<usize>,
}

pub fn encode(p: &Program) -> Encoded {
    let mut e = Enc::default();
    e.prefix = "hdr.".into();
    let h = &p.hdr;
    e.f32("fsize", "size", 0);
    e.f16("magic", "magic", h.magic);
    e.f16("nframes", "count", h.nframes.unwrap_or(p.frames.len() as u16));
    e.f16("w", "dim", h.w);
    e.f16("h", "dim", h.h);
    e.f16("depth", "enum", h.depth);
    e.f32("flags", "flag", h.flags.0);
    e.f16("speed", "value", h.speed);
    e.u32(0);
    e.u32(0);
    e.f8("tidx", "index", h.tidx);
    e.fill(3, h.rsv);
    e.f16("ncolors", "count", h.ncolors);
    e.f8("pixw", "value", h.pixw);
    e.f8("pixh", "value", h.pixh);
    e.i16(h.grid[0]);
    e.i16(h.grid[1]);
    e.u16(h.gridsz[0]);
    e.u16(h.gridsz[1]);
    e.fill(84, h.rsv);
    let mut frame_starts = vec![];
    for (fi, f) in p.frames.iter().enumerate() {
        let fstart = e.buf.len();
        frame_starts.push(fstart);
        e.prefix = format!("f{}.", fi);
        let n = f.chunks.len() as u32;
        let (old, new) = match f.count_field.as_str() {
            "old" => (n.min(0xFFFF) as u16, 0u32),
            "new" => (0u16, n),
            "old_ffff" => (0xFFFFu16, n),
            _ => (n.min(0xFFFF) as u16, n),
        };
        e.f32("nbytes", "size", 0);
        e.f16("magic", "magic", f.magic);
        e.f16("oldn", "count", old);
        e.f16("dur", "value", f.dur);
        e.u16(f.rsv);
        e.f32("newn", "count", new);
        for (ci, c) in f.chunks.iter().enumerate() {
            let cstart = e.buf.len();
            e.prefix = format!("f{}.c{}.{}.", fi, ci, c.kind());
            e.f32("size", "size", 0);
            e.f16("code", "enum", c.code());
            chunk_body(c, &mut e);
            let pad = f.pads.get(ci).copied().unwrap_or(0) as usize;
            for i in 0..pad {
                e.u8((0xA0 + i) as u8);
            }
            let size = (e.buf.len() - cstart) as u32;
            e.buf[cstart..cstart + 4].copy_from_slice(&size.to_le_bytes());
        }
        let fsize = (e.buf.len() - fstart) as u32;
        e.buf[fstart..fstart + 4].copy_from_slice(&fsize.to_le_bytes());
    }
    let end_of_frames = e.buf.len();
    e.buf.extend_from_slice(&p.trailing);
    let total = match h.fsize {
        Some(U32S(v)) if v != 0 => v,
        _ => e.buf.len() as u32,
    };
    e.buf[0..4].copy_from_slice(&total.to_le_bytes());
    Encoded { bytes: e.buf, fields: e.fields, end_of_frames, frame_starts }
}
