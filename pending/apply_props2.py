p='/verif/bin/props.py'
s=open(p).read()
def rep(a,b):
    global s
    assert a in s, a[:80]
    s=s.replace(a,b,1)
# C13: large files (cels beyond 64 KiB / 256 KiB) with sparse cut positions
rep('''    res, n = driver_stage(rep, work, b, "cuts", cases, "cuts", [], kinds={"cut_full_file_fails", "cut_prefix_loaded"})''','''    # large files (chunk bodies far beyond 64 KiB): cut positions sampled around every chunk start, every multiple of 64 KiB, both ends
    bigc = work.path("cutbig.ndjson")
    gen(b, bigc, "bigcel", seed + 6, 2 if tier == "quick" else 10)
    with open(cases, "a") as f:
        f.write(open(bigc).read())
    res, n = driver_stage(rep, work, b, "cuts", cases, "cuts", [], kinds={"cut_full_file_fails", "cut_prefix_loaded"})''')
# denser quick tiers for the G3 stages (a 400-sprite stage costs about 5 s)
rep('''g3_check("C02", "render", 300, 6000,''','''g3_check("C02", "render", 600, 6000,''')
rep('''g3_check("C06", "cel", 400, 8000,''','''g3_check("C06", "cel", 800, 8000,''')
rep('''g3_check("C08", "tile", 400, 8000,''','''g3_check("C08", "tile", 800, 8000,''')
rep('''g3_check("C19", "default", 400, 8000,''','''g3_check("C19", "default", 600, 8000,''')
rep('''gen(b, cases, "single", seed + 55, 300 if tier == "quick" else 6000)''','''gen(b, cases, "single", seed + 55, 600 if tier == "quick" else 6000)''')
open(p,'w').write(s)
print('props patched (3)')

s=open(p).read()
# usable verdicts: a property that does not own "usable" as a whole can own single fields of it
rep('''    if kind == "usable":
        return sig if "usable" in allowed else None''','''    if kind == "usable":
        if "usable" in allowed:
            return sig
        fs = [f for f in sig.split(":")[1].split(",") if f]
        keep = [f for f in fs if f in allowed]
        return ("usable:" + ",".join(keep)) if keep else None''')
rep('''    "C06": {"cel.image", "cel.facts", "cels_complete"},''','''    "C06": {"cel.image", "cel.facts", "cels_complete", "cel.outside_rect_transparent"},''')
# inconsistency classes: compressed data with surplus rows / columns
rep('''    mk("zlib_cel_declares_less", lambda q: upd(q, lambda c: img(c) and c["w"] > 1, ctype=2, w=1))''','''    mk("zlib_cel_declares_less", lambda q: upd(q, lambda c: img(c) and c["w"] > 1, ctype=2, w=1))
    for i, c0 in enumerate(cels(prog, lambda c: img(c) and c["h"] > 1)[:6]):
        mk("zlib_cel_declares_fewer_rows", lambda q, i=i: cels(q, lambda c: img(c) and c["h"] > 1)[i].update(ctype=2, h=cels(q, lambda c: img(c) and c["h"] > 1)[i]["h"] - 1))''')
# C06: cel-size inconsistencies of image cels (whatever loads: transparent outside the declared rectangle)
rep('''def g3_check(pid, profile, nq, nt, rule, extra=None):''','''CEL_SIZE_CLASSES = {"zlib_cel_declares_less", "zlib_cel_declares_fewer_rows", "zlib_cel_declares_more", "zlib_cel_declares_much_more"}


def celsize_extra(rep, work, tier, seed, b):
    """Image cels whose declared size disagrees with their (compressed) data - out of contract, the library accepts surplus data:
    if such a sprite loads, every cel image must still be transparent outside the rectangle the cel declares."""
    hosts = work.path("celsize-hosts.ndjson")
    gen(b, hosts, "cel", seed + 57, 80 if tier == "quick" else 1500)
    inc = work.path("celsize.ndjson")
    with open(inc, "w") as f:
        for line in open(hosts):
            c = json.loads(line)
            for name, q in inconsistencies(c["prog"]):
                if name in CEL_SIZE_CLASSES:
                    f.write(json.dumps({"id": f"{c['id']}|{name}", "mode": "full", "meta": {"gen": "g5-inconsistency", "class": name}, "prog": q}) + "\\n")
    stage_cases(rep, work, b, inc, "cel-size-inconsistencies", env={"ASEVER_ALLOC_CAP": ALLOC_CAP})


def g3_check(pid, profile, nq, nt, rule, extra=None):''')
rep('''g3_check("C06", "cel", 800, 8000, extra=bigcel_extra, rule=''','''g3_check("C06", "cel", 800, 8000, extra=both_extras(bigcel_extra, celsize_extra), rule=''')
# kind-wide faults on seeds with many chunks
rep('''    allseeds = work.path("allseeds.ndjson")''','''    many = work.path("seeds3.ndjson")
    gen(b, many, "struct", seed + 2, max(4, nseeds))
    kw = work.path("kindwide.ndjson")
    faults(b, many, kw, "kindwide", seed, mode=mode)
    with open(ff, "a") as f:
        f.write(open(kw).read())
    allseeds = work.path("allseeds.ndjson")''')
# C07: one more encoding choice
rep('''    n, v = (120, 12) if tier == "quick" else (2500, 24)''','''    n, v = (120, 13) if tier == "quick" else (2500, 26)''')
open(p,'w').write(s)
print('props patched (4)')

s=open(p).read()
rep('''    mk("zlib_cel_declares_less",''','''    # duplicates: a later chunk for the same id / the same role (the specification says which one counts)
    def dup_tileset(q):
        ch = q["frames"][0]["chunks"] if q["frames"] else []
        i = next((i for i, c in enumerate(ch) if c["k"] == "tileset"), None)
        if i is None:
            return False
        d = copy.deepcopy(ch[i]); d["name"] = [100, 117, 112]; d["base"] = 7
        ch.insert(i + 1, d)
    mk("duplicate_tileset_id", dup_tileset)
    def dup_tags(q):
        if not q["frames"] or not any(c["k"] == "tags" for c in q["frames"][0]["chunks"]):
            return False
        q["frames"][0]["chunks"].append({"k": "tags", "tags": [{"from": 0, "to": 0, "dir": 1, "repeat": 2, "name": [50]}]})
    mk("duplicate_tags_chunk", dup_tags)
    def dup_ext(q):
        for fr in q["frames"]:
            for i, c in enumerate(fr["chunks"]):
                if c["k"] == "extfiles" and c["entries"]:
                    d = copy.deepcopy(c)
                    for e in d["entries"]:
                        e["name"] = [120] + list(e["name"])
                    fr["chunks"].insert(i + 1, d)
                    return
        return False
    mk("duplicate_extfile_ids", dup_ext)
    mk("zlib_cel_declares_less",''')
open(p,'w').write(s)
print('props patched (5)')
