#!/bin/bash
# install pending2: re-observation of the previous sprite, concurrent loads in the probe, AseApi with a sprite store
set -e
cd /verif
cp pending2/drivers.rs harness/src/drivers.rs
cp pending2/probe-main.rs probe/src/main.rs
cp pending2/AseApi.tla pending2/MC_Api.tla pending2/Trace_Load.tla spec/
python3 - <<'PY'
p='/verif/bin/props.py'
s=open(p).read()
old='mc_run(rep, work, "MC_Api", {}, ["Immutable", "Functional", "Deterministic"], workers=8)'
new='mc_run(rep, work, "MC_Api", {"T": 3}, ["Immutable", "Functional", "Deterministic"], workers=10)'
assert old in s
s=s.replace(old,new,1)
# replay of "an earlier sprite changed after another load": the recorded case together with the case that followed it
old="""        cid = reject_case_id(rej)
        c = find_case(cases, cid) or {"id": cid}
        rep.violation(sig, re.sub(r"\\s+", " ", rej)[:1200], {"property": rep.pid, "stage": name, "case": c, "tlc": rej, "spec": spec})"""
new="""        cid = reject_case_id(rej)
        c = find_case(cases, cid) or {"id": cid}
        doc = {"property": rep.pid, "stage": name, "case": c, "tlc": rej, "spec": spec}
        if sig.startswith("second_load_differs"):
            nxt = None
            with open(cases) as cf:
                prev_hit = False
                for line in cf:
                    if prev_hit:
                        nxt = json.loads(line)
                        break
                    prev_hit = ('"' + cid + '"') in line and json.loads(line).get("id") == cid
            if nxt is not None:
                doc["then"] = nxt
        rep.violation(sig, re.sub(r"\\s+", " ", rej)[:1200], doc)"""
assert old in s, "stage_cases block"
s=s.replace(old,new,1)
old="""        with open(cases, "w") as f:
            f.write(json.dumps(doc["case"]) + "\\n")
        stage_cases(rep, work, b, cases, "replay", spec=doc.get("spec", "Trace_Load"), shards=1, jvms=1, env={"ASEVER_ALLOC_CAP": ALLOC_CAP})"""
new="""        with open(cases, "w") as f:
            f.write(json.dumps(doc["case"]) + "\\n")
            if "then" in doc:
                f.write(json.dumps(doc["then"]) + "\\n")
        stage_cases(rep, work, b, cases, "replay", spec=doc.get("spec", "Trace_Load"), shards=1, jvms=1, env={"ASEVER_ALLOC_CAP": ALLOC_CAP})"""
assert old in s, "replay block"
s=s.replace(old,new,1)
old='gen(b, hosts, "cel", seed + 57, 80 if tier == "quick" else 1500)'
new='gen(b, hosts, "cel", seed + 57, 160 if tier == "quick" else 1500)'
assert old in s
s=s.replace(old,new,1)
open(p,'w').write(s)
PY
bin/setup | tail -1
