#!/bin/bash
# install pending2: re-observation of the previous sprite, concurrent loads in the probe, AseApi with a sprite store
set -e
cd /verif
cp pending2/drivers.rs harness/src/drivers.rs
cp pending2/probe-main.rs probe/src/main.rs
cp pending2/AseApi.tla pending2/MC_Api.tla pending2/Trace_Load.tla spec/
python3 - <<'PY'
p='/verif/bin/props.py'
s=open(p).read()
old='mc_run(rep, work, "MC_Api", {}, ["Immutable", "Functional", "Deterministic"], workers=8)'
new='mc_run(rep, work, "MC_Api", {"T": 3}, ["Immutable", "Functional", "Deterministic"], workers=10)'
assert old in s
open(p,'w').write(s.replace(old,new,1))
PY
bin/setup | tail -1
